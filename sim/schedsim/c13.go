package schedsim

import (
	"context"
	"encoding/json"
	"fmt"
	"math/big"
	"runtime"
	"sort"
	"strings"
	"sync"
	"testing"
	"testing/synctest"
	"time"

	"gitlab.com/aquachain/aquachain/common"
	"gitlab.com/aquachain/aquachain/consensus"
	"gitlab.com/aquachain/aquachain/consensus/aquahash"
	"gitlab.com/aquachain/aquachain/core/types"
	"gitlab.com/aquachain/aquachain/params"
	"verifsim/chainsim"
	"verifsim/kernel"
	"verifsim/refmodel"
)

// ---- C13: headers and uncles accepted iff they satisfy the consensus rules ----------

// HdrSpec is a synthetic header in plan form.
type HdrSpec struct {
	Number   uint64 `json:"n"`
	Time     int64  `json:"t"` // absolute, or relative to the fake clock when RelNow
	RelNow   bool   `json:"rel_now,omitempty"`
	Diff     string `json:"d"`
	GasLimit uint64 `json:"gl"`
	GasUsed  uint64 `json:"gu"`
	ExtraLen int    `json:"x"`
}

// Cand is one candidate child: a valid child of the parent with one field moved.
type Cand struct {
	Gap       int64  `json:"gap"`                     // time = parent.time + gap (ignored when NowDelta set)
	NowDelta  *int64 `json:"now_delta,omitempty"`     // time = fake clock + delta
	TimeAbs   string `json:"time_abs,omitempty"`      // absolute timestamp (beyond 64 bits, ...)
	DiffDelta int64  `json:"diff_delta,omitempty"`    // added to the scheduled difficulty
	DiffAbs   string `json:"diff_abs,omitempty"`      // or an absolute difficulty
	GasLimit  string `json:"gas_limit,omitempty"`     // "" = parent's; "+k"/"-k" relative to parent; absolute otherwise
	GasUsedOv int64  `json:"gas_used_over,omitempty"` // gasUsed = gasLimit + this (<=0 allowed)
	ExtraLen  int    `json:"extra"`
	NumDelta  int64  `json:"num_delta"`          // number = parent + 1 + this
	NumWrap   int    `json:"num_wrap,omitempty"` // number = parent + 1 + NumWrap * 2^64 (same low 64 bits, not the successor)
	Uncle     bool   `json:"uncle,omitempty"`
}

type BadSpec struct {
	Pos  int `json:"pos"`
	Kind int `json:"kind"`
}

// C13Plan is the explicit description of one C13 execution.
type C13Plan struct {
	Mode    string         `json:"mode"` // rules | batch
	Forks   map[int]uint64 `json:"forks"`
	ChainID uint64         `json:"chain_id"`
	Parent  HdrSpec        `json:"parent"`
	Cands   []Cand         `json:"cands,omitempty"`
	// batch mode
	Gaps     []int64    `json:"gaps,omitempty"`
	Bad      []BadSpec  `json:"bad,omitempty"`
	Workers  int        `json:"workers,omitempty"`
	Schedule []int      `json:"schedule,omitempty"`
	AbortAt  int        `json:"abort_at"`
	Uncle    *UncleCase `json:"uncle,omitempty"`
}

// UncleCase selects one uncle-set situation on a synthetic 10-block chain.
type UncleCase struct {
	Case    int `json:"case"`
	Depth   int `json:"depth"`    // the uncle's parent is the including block's ancestor at this depth (1 = its parent)
	ByDepth int `json:"by_depth"` // for duplicates: the ancestor (depth) that already included the uncle
	Count   int `json:"count"`
}

const (
	uncleValid = iota
	uncleDuplicateOfAncestorsUncle
	uncleTwiceInBlock
	uncleTooMany
	uncleIsAncestor
	uncleParentTooOld
	uncleSiblingOfBlock
	uncleInvalidHeader
	numUncleCases
)

func DecodeC13Plan(raw json.RawMessage) (any, error) {
	p := &C13Plan{AbortAt: -1}
	err := json.Unmarshal(raw, p)
	return p, err
}
func HashC13Plan(p any) uint64 { b, _ := json.Marshal(p); return kernel.HashBytes(b) }

// the built-in schedules, as literals (mainnet, testnet, test)
var builtinForks = []map[int]uint64{
	{1: 3600, 2: 7200, 3: 13026, 4: 21800, 5: 22800, 6: 36000, 7: 36050},
	{1: 1, 2: 2, 3: 3, 4: 4, 5: 5, 6: 6, 7: 25, 8: 650},
	{1: 1, 2: 2, 3: 3, 4: 4, 5: 5, 6: 6, 7: 7},
}

func genForks(rng *kernel.RNG) (map[int]uint64, uint64) {
	switch rng.Intn(5) {
	case 0:
		return builtinForks[0], 61717561
	case 1:
		return builtinForks[1], 617175611
	case 2:
		return builtinForks[2], 3
	}
	// prefix-closed, strictly ascending random schedule
	f := map[int]uint64{}
	h := uint64(0)
	top := rng.Range(0, 9)
	for hf := 1; hf <= top; hf++ {
		h += uint64(rng.Range(1, 40))
		f[hf] = h
	}
	id := uint64(1337)
	if rng.Bool(0.2) {
		id = 61717561 // mainnet id: minimum difficulties of the early epochs apply
	}
	return f, id
}

const fakeNow = 946684800

func genParent(rng *kernel.RNG, forks map[int]uint64) HdrSpec {
	// height: around a fork height, or anywhere
	var n uint64
	var hs []uint64
	for _, h := range forks {
		hs = append(hs, h)
	}
	sort.Slice(hs, func(i, j int) bool { return hs[i] < hs[j] })
	if len(hs) > 0 && rng.Bool(0.7) {
		h := hs[rng.Intn(len(hs))]
		d := int64(rng.Range(-3, 2))
		if int64(h)+d < 1 {
			d = 0
		}
		n = uint64(int64(h) + d)
	} else {
		n = uint64(rng.Range(1, 50000))
	}
	if n == 0 {
		n = 1
	}
	diffs := []string{"46039386", "46039387", "99999999", "100001792", "30959185800", "131072", "1000000", "123456789012", "46039386000", "2048", "16", "1"}
	gl := []uint64{5000, 5003, 5119, 8_000_000, 4_712_388, 1<<63 - 1, 1<<63 - 1000, 1 << 40}[rng.Intn(8)]
	return HdrSpec{Number: n, Time: fakeNow - int64(rng.Range(100, 50_000_000)), Diff: diffs[rng.Intn(len(diffs))], GasLimit: gl, GasUsed: 0, ExtraLen: rng.Intn(33)}
}

func genCand(rng *kernel.RNG) Cand {
	gaps := []int64{1, 2, 9, 10, 11, 19, 20, 179, 180, 181, 239, 240, 241, 989, 990, 991, 999, 1000, 1001, 1009, 1010, 5000, 100000}
	c := Cand{Gap: gaps[rng.Intn(len(gaps))], ExtraLen: rng.Intn(33)}
	switch rng.Intn(12) {
	case 0: // just the gap (formula boundary), all else valid
	case 1:
		c.DiffDelta = []int64{-1, 1, 2, -2}[rng.Intn(4)]
	case 2:
		c.DiffAbs = []string{"0", "1", "46039385", "46039386", "99999998", "100001791", "-5"}[rng.Intn(7)]
	case 3:
		c.Gap = []int64{0, -1, -100}[rng.Intn(3)]
	case 4:
		d := []int64{13, 14, 15, 16, 17, 30, 31, -1}[rng.Intn(8)]
		c.NowDelta = &d
	case 5:
		c.ExtraLen = []int{31, 32, 33, 34, 64, 1000}[rng.Intn(6)]
	case 6:
		c.GasLimit = []string{"+bound-1", "+bound", "+bound+1", "-bound+1", "-bound", "-bound-1", "+0", "+1", "-1"}[rng.Intn(9)]
	case 7:
		c.GasLimit = []string{"4999", "5000", "5001", "9223372036854775807", "9223372036854775808", "18446744073709551615"}[rng.Intn(6)]
	case 8:
		c.GasUsedOv = []int64{0, 1, 2, -1}[rng.Intn(4)]
	case 9:
		c.NumDelta = []int64{1, -1, 2}[rng.Intn(3)]
		if rng.Bool(0.4) {
			c.NumDelta, c.NumWrap = 0, []int{1, 2, 1 << 20}[rng.Intn(3)]
		}
	case 10:
		c.Uncle = true
		if rng.Bool(0.5) {
			d := int64(rng.Range(16, 100000))
			c.NowDelta = &d // uncles are not checked against the clock
		}
	case 11:
		c.Gap = gaps[rng.Intn(len(gaps))]
		c.DiffDelta = int64(rng.Intn(3)) - 1
	}
	if rng.Bool(0.04) && !c.Uncle {
		// timestamps that do not fit 63/64 bits: far in the future whatever they truncate to
		c.TimeAbs = []string{"18446744073709551616", "18446744074656236416", "9223372036854775808", "36893488147419103232", "340282366920938463463374607431768211456"}[rng.Intn(5)]
		c.NowDelta = nil
	}
	return c
}

// GenC13Plan draws a rules-mode or a batch-mode plan.
func GenC13Plan(rng *kernel.RNG, env *kernel.Env, k int) any {
	forks, id := genForks(rng)
	p := &C13Plan{Forks: forks, ChainID: id, Parent: genParent(rng, forks), AbortAt: -1}
	if k%5 == 4 {
		p.Mode = "uncles"
		if p.Parent.GasLimit > 1<<62 || p.Parent.GasLimit < 6000 {
			p.Parent.GasLimit = 8_000_000
		}
		p.Uncle = &UncleCase{Case: rng.Intn(numUncleCases), Depth: rng.Range(2, 7), ByDepth: rng.Range(1, 6), Count: rng.Range(1, 3)}
		// often place the 10-block window across a fork that changes the header
		// version (HF5, HF8, HF9), so that an uncle and the ancestor that included
		// it are hashed under different versions
		var vf []uint64
		for _, hf := range []int{5, 8, 9} {
			if h, ok := forks[hf]; ok && h > 14 {
				vf = append(vf, h)
			}
		}
		if len(vf) > 0 && rng.Bool(0.7) {
			p.Parent.Number = vf[rng.Intn(len(vf))] - uint64(rng.Range(2, 12))
		}
		for i := 0; i < 10; i++ {
			p.Gaps = append(p.Gaps, []int64{1, 9, 100, 179, 180, 240, 1000}[rng.Intn(7)])
		}
		return p
	}
	if k%2 == 0 {
		p.Mode = "rules"
		for i := rng.Range(8, 30); i > 0; i-- {
			p.Cands = append(p.Cands, genCand(rng))
		}
		return p
	}
	p.Mode = "batch"
	if p.Parent.GasLimit > 1<<62 || p.Parent.GasLimit < 6000 {
		p.Parent.GasLimit = 8_000_000
	}
	n := rng.Range(1, 40)
	for i := 0; i < n; i++ {
		p.Gaps = append(p.Gaps, []int64{1, 9, 10, 100, 179, 180, 239, 240, 1000}[rng.Intn(9)])
	}
	for i := rng.Intn(4); i > 0; i-- {
		p.Bad = append(p.Bad, BadSpec{Pos: rng.Intn(n), Kind: rng.Intn(numBadKinds)})
	}
	p.Workers = []int{1, 2, 4, 16}[rng.Intn(4)]
	for i := rng.Range(n, 4*n+8); i > 0; i-- {
		p.Schedule = append(p.Schedule, rng.Intn(256))
	}
	if rng.Bool(0.25) {
		p.AbortAt = rng.Intn(len(p.Schedule))
	}
	return p
}

// ---- synthetic chain reader -------------------------------------------------------------

type simReader struct {
	cfg    *params.ChainConfig
	mu     sync.Mutex
	byHash map[common.Hash]*types.Header
	blocks map[common.Hash]*types.Block
	gate   func(hash common.Hash)
	head   *types.Header
}

func (r *simReader) Config() *params.ChainConfig            { return r.cfg }
func (r *simReader) GetContext() context.Context            { return context.Background() }
func (r *simReader) CurrentHeader() *types.Header           { return r.head }
func (r *simReader) GetHeaderByNumber(uint64) *types.Header { return nil }
func (r *simReader) GetHeaderByHash(h common.Hash) *types.Header {
	r.mu.Lock()
	defer r.mu.Unlock()
	return r.byHash[h]
}
func (r *simReader) GetHeader(hash common.Hash, number uint64) *types.Header {
	if r.gate != nil {
		r.gate(hash)
	}
	r.mu.Lock()
	defer r.mu.Unlock()
	if h := r.byHash[hash]; h != nil && h.Number.Uint64() == number {
		return h
	}
	return nil
}
func (r *simReader) GetBlock(hash common.Hash, number uint64) *types.Block {
	r.mu.Lock()
	defer r.mu.Unlock()
	if b := r.blocks[hash]; b != nil && b.NumberU64() == number {
		return b
	}
	return nil
}
func (r *simReader) put(h *types.Header) {
	r.mu.Lock()
	r.byHash[h.Hash()] = h
	r.mu.Unlock()
}

func cfgFor(forks map[int]uint64, id uint64) *params.ChainConfig {
	fm := params.ForkMap{}
	for k, v := range forks {
		fm[k] = new(big.Int).SetUint64(v)
	}
	cfg := &params.ChainConfig{ChainId: new(big.Int).SetUint64(id), HomesteadBlock: big.NewInt(0), EIP150Block: big.NewInt(0), Aquahash: new(params.AquahashConfig), HF: fm}
	if h, ok := forks[7]; ok {
		b := new(big.Int).SetUint64(h)
		cfg.EIP155Block, cfg.EIP158Block, cfg.ByzantiumBlock = b, b, b
	}
	return cfg
}

func mkHeader(cfg *params.ChainConfig, parentHash common.Hash, number uint64, tm *big.Int, diff *big.Int, gl, gu uint64, extra int, salt byte) *types.Header {
	h := &types.Header{ParentHash: parentHash, Number: new(big.Int).SetUint64(number), Time: new(big.Int).Set(tm), Difficulty: new(big.Int).Set(diff),
		GasLimit: gl, GasUsed: gu, Extra: make([]byte, extra), UncleHash: types.EmptyUncleHash, TxHash: types.EmptyRootHash, ReceiptHash: types.EmptyRootHash}
	h.Coinbase[0] = salt
	h.Version = cfg.GetBlockVersion(h.Number)
	return h
}

func refHdr(h *types.Header) refmodel.Hdr {
	return refmodel.Hdr{Number: h.Number.Uint64(), Time: h.Time, Difficulty: h.Difficulty, GasLimit: h.GasLimit, GasUsed: h.GasUsed, ExtraLen: len(h.Extra)}
}

func bigOf(s string) *big.Int {
	b, ok := new(big.Int).SetString(s, 10)
	if !ok {
		return big.NewInt(1)
	}
	return b
}

// ExecC13 runs one plan.
func ExecC13(t *testing.T, pa any, col *kernel.Collector) []kernel.Violation {
	p := pa.(*C13Plan)
	var vs []kernel.Violation
	chainsim.Bubble(t, func() {
		if p.Mode == "batch" {
			vs = execC13Batch(p, col)
		} else if p.Mode == "uncles" {
			vs = execC13Uncles(p, col)
		} else {
			vs = execC13Rules(p, col)
		}
	})
	return vs
}

// base builds grandparent and parent and a reader holding them.
func c13Base(p *C13Plan) (*simReader, *types.Header, *types.Header) {
	cfg := cfgFor(p.Forks, p.ChainID)
	r := &simReader{cfg: cfg, byHash: map[common.Hash]*types.Header{}, blocks: map[common.Hash]*types.Block{}}
	pt := big.NewInt(p.Parent.Time)
	var gp *types.Header
	ph := common.Hash{}
	if p.Parent.Number >= 1 {
		gp = mkHeader(cfg, common.Hash{1}, p.Parent.Number-1, new(big.Int).Sub(pt, big.NewInt(240)), bigOf(p.Parent.Diff), p.Parent.GasLimit, 0, 0, 7)
		r.put(gp)
		ph = gp.Hash()
	}
	parent := mkHeader(cfg, ph, p.Parent.Number, pt, bigOf(p.Parent.Diff), p.Parent.GasLimit, p.Parent.GasUsed, p.Parent.ExtraLen, 8)
	r.put(parent)
	r.head = parent
	return r, gp, parent
}

func execC13Rules(p *C13Plan, col *kernel.Collector) []kernel.Violation {
	var vs []kernel.Violation
	r, _, parent := c13Base(p)
	forks := refmodel.Forks(p.Forks)
	engine := aquahash.NewFaker()
	now := time.Now().Unix()
	for i, c := range p.Cands {
		col.Tick()
		tm := new(big.Int).Add(parent.Time, big.NewInt(c.Gap))
		if c.NowDelta != nil {
			tm = big.NewInt(now + *c.NowDelta)
		}
		if c.TimeAbs != "" {
			tm = bigOf(c.TimeAbs)
			col.Inc("fault_timestamp_beyond_64_bits")
		}
		if tm.Sign() < 0 {
			tm = big.NewInt(0)
		}
		rp := refHdr(parent)
		diff := big.NewInt(1)
		if tm.Cmp(parent.Time) > 0 {
			diff = refmodel.ExpectedDifficulty(forks, p.ChainID, tm, rp)
		}
		diff = new(big.Int).Add(diff, big.NewInt(c.DiffDelta))
		if c.DiffAbs != "" {
			diff = bigOf(c.DiffAbs)
		}
		gl := parent.GasLimit
		bound := parent.GasLimit / 1024
		switch c.GasLimit {
		case "":
		case "+bound-1":
			gl = parent.GasLimit + bound - 1
		case "+bound":
			gl = parent.GasLimit + bound
		case "+bound+1":
			gl = parent.GasLimit + bound + 1
		case "-bound+1":
			gl = parent.GasLimit - bound + 1
		case "-bound":
			gl = parent.GasLimit - bound
		case "-bound-1":
			gl = parent.GasLimit - bound - 1
		case "+0":
		case "+1":
			gl = parent.GasLimit + 1
		case "-1":
			gl = parent.GasLimit - 1
		default:
			gl = bigOf(c.GasLimit).Uint64()
		}
		// gasUsed = gasLimit + GasUsedOv (0: exactly at the bound), clamped to uint64
		guv := new(big.Int).Add(new(big.Int).SetUint64(gl), big.NewInt(c.GasUsedOv))
		if guv.Sign() < 0 {
			guv = big.NewInt(0)
		}
		if !guv.IsUint64() {
			guv = new(big.Int).SetUint64(^uint64(0))
		}
		gu := guv.Uint64()
		num := int64(parent.Number.Uint64()) + 1 + c.NumDelta
		if num < 0 {
			num = 0
		}
		h := mkHeader(r.cfg, parent.Hash(), uint64(num), tm, diff, gl, gu, c.ExtraLen, byte(i))
		if h.Difficulty.Sign() < 0 {
			// negative difficulties cannot be RLP-hashed; the rule is "non-positive is rejected",
			// exercised with 0
			h.Difficulty = big.NewInt(0)
		}
		// the clock rule is judged separately from the other rules: the statement
		// fixes no precedence between them
		other := refmodel.HeaderVerdict(forks, p.ChainID, now, refHdr(h), rp, true)
		future := !c.Uncle && h.Time.Cmp(big.NewInt(now+15)) > 0
		want := other
		if future && other == "" {
			want = "future"
		}
		if c.NumWrap > 0 {
			// a number that agrees with parent+1 only in its low 64 bits
			h.Number = new(big.Int).Add(h.Number, new(big.Int).Lsh(big.NewInt(int64(c.NumWrap)), 64))
			if want == "" {
				want = "number is not the parent's plus one"
			}
			col.Inc("probe_number_beyond_64_bits")
		}
		var err error
		var panicked any
		func() {
			defer func() { panicked = recover() }()
			if c.Uncle {
				err = verifyAsUncle(engine, r, h, parent)
			} else {
				err = engine.VerifyHeader(r, h, true)
			}
		}()
		col.Inc("candidates_checked")
		if want == "" {
			col.Inc("candidates_valid")
		} else {
			col.Inc("candidates_invalid")
		}
		if c.NowDelta != nil {
			col.Inc("fault_clock_relative_timestamp")
		}
		if panicked != nil {
			vs = append(vs, kernel.Violation{Class: "header-verification-panic", Step: i, Detail: fmt.Sprintf("candidate %d %+v: %v", i, c, panicked)})
			return vs
		}
		got := ""
		if err != nil {
			got = err.Error()
		}
		switch {
		case want == "" && err != nil:
			vs = append(vs, kernel.Violation{Class: "valid-header-rejected", Step: i, Detail: fmt.Sprintf("forks %v chain id %d parent %+v candidate %d %+v (number %d time %v difficulty %v gasLimit %d gasUsed %d extra %d): reference rules accept, engine says %q", p.Forks, p.ChainID, p.Parent, i, c, num, tm, diff, gl, gu, c.ExtraLen, got)})
			return vs
		case want != "" && err == nil:
			vs = append(vs, kernel.Violation{Class: "invalid-header-accepted", Step: i, Detail: fmt.Sprintf("forks %v chain id %d parent %+v candidate %d %+v (number %d time %v difficulty %v gasLimit %d gasUsed %d extra %d): reference rules reject (%s), engine accepts", p.Forks, p.ChainID, p.Parent, i, c, num, tm, diff, gl, gu, c.ExtraLen, want)})
			return vs
		case want == "future" && err != consensus.ErrFutureBlock:
			vs = append(vs, kernel.Violation{Class: "future-header-wrong-error", Step: i, Detail: fmt.Sprintf("candidate %d %+v is %d s ahead of the clock and otherwise valid: engine returned %q instead of the future-block verdict", i, c, tm.Int64()-now, got)})
			return vs
		case !future && err == consensus.ErrFutureBlock:
			vs = append(vs, kernel.Violation{Class: "non-future-header-called-future", Step: i, Detail: fmt.Sprintf("candidate %d %+v: engine says future block but the header time %v is not more than 15 s ahead of the clock %d", i, c, tm, now)})
			return vs
		}
	}
	kernel.SetNonTrivial()
	return vs
}

// verifyAsUncle wraps the candidate as the single uncle of a block two levels
// above its parent, so that VerifyUncles applies the header rules to it.
func verifyAsUncle(engine *aquahash.Aquahash, r *simReader, uncle, parent *types.Header) error {
	cfg := r.cfg
	forks := map[int]uint64{}
	for k, v := range cfg.HF {
		if v != nil {
			forks[k] = v.Uint64()
		}
	}
	rf := refmodel.Forks(forks)
	id := cfg.ChainId.Uint64()
	// the uncle's sibling s (valid child of parent) and the including block b (valid child of s)
	st := new(big.Int).Add(parent.Time, big.NewInt(240))
	s := mkHeader(cfg, parent.Hash(), parent.Number.Uint64()+1, st, refmodel.ExpectedDifficulty(rf, id, st, refHdr(parent)), parent.GasLimit, 0, 0, 200)
	bt := new(big.Int).Add(st, big.NewInt(240))
	b := mkHeader(cfg, s.Hash(), s.Number.Uint64()+1, bt, refmodel.ExpectedDifficulty(rf, id, bt, refHdr(s)), s.GasLimit, 0, 0, 201)
	r.put(s)
	r.mu.Lock()
	r.blocks[parent.Hash()] = types.NewBlockWithHeader(parent)
	r.blocks[s.Hash()] = types.NewBlockWithHeader(s)
	if gp := r.byHash[parent.ParentHash]; gp != nil {
		r.blocks[gp.Hash()] = types.NewBlockWithHeader(gp)
	}
	r.mu.Unlock()
	blk := types.NewBlockWithHeader(b).WithBody(nil, []*types.Header{uncle})
	return engine.VerifyUncles(r, blk)
}

// ---- batch verification under a controlled worker schedule ---------------------------

const (
	badDifficulty = iota
	badTime
	badExtra
	badGasUsed
	badGasLimit
	badUnlinked
	badNumber
	numBadKinds
)

func execC13Batch(p *C13Plan, col *kernel.Collector) []kernel.Violation {
	var vs []kernel.Violation
	if p.Workers > 0 {
		defer runtime.GOMAXPROCS(runtime.GOMAXPROCS(p.Workers))
	}
	r, _, parent := c13Base(p)
	forks := refmodel.Forks(p.Forks)
	bad := map[int]int{}
	for _, b := range p.Bad {
		bad[b.Pos] = b.Kind
	}
	var headers []*types.Header
	prev := parent
	for i, gap := range p.Gaps {
		tm := new(big.Int).Add(prev.Time, big.NewInt(gap))
		diff := refmodel.ExpectedDifficulty(forks, p.ChainID, tm, refHdr(prev))
		h := mkHeader(r.cfg, prev.Hash(), prev.Number.Uint64()+1, tm, diff, prev.GasLimit, 0, 0, byte(i))
		if kind, ok := bad[i]; ok {
			switch kind {
			case badDifficulty:
				h.Difficulty.Add(h.Difficulty, big.NewInt(1))
			case badTime:
				h.Time.Set(prev.Time)
			case badExtra:
				h.Extra = make([]byte, 33)
			case badGasUsed:
				h.GasUsed = h.GasLimit + 1
			case badGasLimit:
				h.GasLimit += h.GasLimit/1024 + 5
			case badUnlinked:
				h.ParentHash = common.Hash{0xde, 0xad, byte(i)}
			case badNumber:
				h.Number.Add(h.Number, big.NewInt(1))
				h.Version = r.cfg.GetBlockVersion(h.Number)
			}
			col.Inc("fault_invalid_header_injected")
		}
		headers = append(headers, h)
		prev = h
	}
	if len(headers) == 0 {
		return nil
	}
	engine := aquahash.NewFaker()
	// one-by-one verdicts on the same chain view (ungated reader that learns each header)
	seq := make([]error, len(headers))
	sr := &simReader{cfg: r.cfg, byHash: map[common.Hash]*types.Header{}, blocks: map[common.Hash]*types.Block{}, head: parent}
	for _, h := range r.byHash {
		sr.put(h)
	}
	first := -1
	for i, h := range headers {
		func() {
			defer func() {
				if x := recover(); x != nil {
					seq[i] = fmt.Errorf("panic: %v", x)
				}
			}()
			seq[i] = engine.VerifyHeader(sr, h, true)
		}()
		if seq[i] != nil && first < 0 {
			first = i
		}
		sr.put(h)
	}
	// gated reader: the worker verifying index i parks in its "already known?" lookup
	idx := map[common.Hash]int{}
	for i, h := range headers {
		if _, dup := idx[h.Hash()]; !dup {
			idx[h.Hash()] = i
		}
	}
	lockc := make(chan struct{}, 1)
	lockc <- struct{}{}
	parked := map[int]chan struct{}{}
	r.gate = func(hash common.Hash) {
		i, ok := idx[hash]
		if !ok {
			return
		}
		g := make(chan struct{})
		<-lockc
		parked[i] = g
		lockc <- struct{}{}
		<-g
	}
	base := runtime.NumGoroutine()
	seals := make([]bool, len(headers))
	for i := range seals {
		seals[i] = true
	}
	abort, results := engine.VerifyHeaders(r, headers, seals)
	synctest.Wait()
	var got []error
	aborted := false
	release := func(k int) bool {
		<-lockc
		var ks []int
		for i := range parked {
			ks = append(ks, i)
		}
		sort.Ints(ks)
		if len(ks) == 0 {
			lockc <- struct{}{}
			return false
		}
		i := ks[k%len(ks)]
		g := parked[i]
		delete(parked, i)
		lockc <- struct{}{}
		close(g)
		synctest.Wait()
		return true
	}
	read := func() {
		select {
		case e, ok := <-results:
			if ok {
				got = append(got, e)
			}
		default:
		}
	}
	maxPar := 0
	for step, c := range p.Schedule {
		col.Tick()
		if step == p.AbortAt && !aborted {
			close(abort)
			aborted = true
			col.Inc("fault_abort_closed_mid_batch")
			synctest.Wait()
		}
		<-lockc
		if len(parked) > maxPar {
			maxPar = len(parked)
		}
		lockc <- struct{}{}
		if c%4 == 3 {
			read()
		} else {
			release(c / 4)
		}
	}
	// drain
	for release(0) {
	}
	for len(got) < len(headers) {
		n := len(got)
		read()
		if len(got) == n {
			break
		}
	}
	if !aborted {
		close(abort)
	}
	synctest.Wait()
	for release(0) {
	}
	time.Sleep(time.Millisecond)
	synctest.Wait()
	if maxPar > 1 {
		col.Inc("probe_several_workers_in_flight")
	}
	col.Add("batch_headers", int64(len(headers)))
	col.MarkCase(kernel.HashString(fmt.Sprint(p.Schedule, p.Workers, p.AbortAt, len(headers), p.Bad)))
	// oracle: same verdicts as one-by-one up to and including the first failure
	limit := len(headers)
	if first >= 0 {
		limit = first + 1
		col.Inc("probe_batch_with_failure")
	}
	if !aborted && len(got) < limit {
		vs = append(vs, kernel.Violation{Class: "batch-results-missing", Detail: fmt.Sprintf("only %d results arrived for %d headers (first sequential failure at %d) and abort was never closed", len(got), len(headers), first)})
		return vs
	}
	for i := 0; i < len(got) && i < limit; i++ {
		a, b := "", ""
		if got[i] != nil {
			a = got[i].Error()
		}
		if seq[i] != nil {
			b = seq[i].Error()
		}
		if a != b && (a == "") == (b == "") {
			// both reject, through different lookup paths: same failure, other wording
			col.Inc("batch_error_text_differs_only")
		}
		if (a == "") != (b == "") {
			vs = append(vs, kernel.Violation{Class: "batch-differs-from-sequential", Step: i, Detail: fmt.Sprintf("workers=%d header %d of %d: batch verification reported %q, one-by-one verification %q (first sequential failure at %d; bad=%v)", p.Workers, i, len(headers), a, b, first, p.Bad)})
			return vs
		}
	}
	// no verifier goroutine (worker or coordinator) may survive: counted by their
	// stack frames, so that unrelated goroutines of the process cannot interfere
	left := 0
	for try := 0; try < 20; try++ {
		buf := make([]byte, 1<<20)
		dump := string(buf[:runtime.Stack(buf, true)])
		left = strings.Count(dump, "aquahash.(*Aquahash).VerifyHeaders.func")
		if left == 0 {
			break
		}
		time.Sleep(time.Millisecond)
		synctest.Wait()
	}
	if left > 0 {
		vs = append(vs, kernel.Violation{Class: "verifier-goroutines-left-behind", Detail: fmt.Sprintf("%d verifier goroutines still exist after abort was closed, every worker released and all results drained", left)})
		return vs
	}
	_ = base
	kernel.SetNonTrivial()
	return vs
}

// ShrinkC13Plan drops candidates / shortens batches and schedules.
func ShrinkC13Plan(pa any) []any {
	p := pa.(*C13Plan)
	var out []any
	clone := func() *C13Plan {
		b, _ := json.Marshal(p)
		q := &C13Plan{}
		json.Unmarshal(b, q)
		return q
	}
	for i := range p.Cands {
		q := clone()
		q.Cands = []Cand{p.Cands[i]}
		if len(p.Cands) > 1 {
			out = append(out, q)
		}
	}
	if len(p.Schedule) > 1 {
		q := clone()
		q.Schedule = q.Schedule[:len(q.Schedule)/2]
		out = append(out, q)
	}
	if len(p.Gaps) > 1 {
		q := clone()
		q.Gaps = q.Gaps[:len(q.Gaps)-1]
		out = append(out, q)
	}
	for i := range p.Bad {
		q := clone()
		q.Bad = append(append([]BadSpec{}, p.Bad[:i]...), p.Bad[i+1:]...)
		out = append(out, q)
	}
	return out
}

// execC13Uncles builds a 10-block synthetic chain with side blocks and judges
// one uncle-set situation with VerifyUncles against the statement: at most the
// fork's maximum, recent, unique (also against what ancestors already
// included), not ancestors, individually valid.
func execC13Uncles(p *C13Plan, col *kernel.Collector) []kernel.Violation {
	r, _, parent := c13Base(p)
	forks := refmodel.Forks(p.Forks)
	uc := p.Uncle
	child := func(par *types.Header, gap int64, salt byte) *types.Header {
		tm := new(big.Int).Add(par.Time, big.NewInt(gap))
		return mkHeader(r.cfg, par.Hash(), par.Number.Uint64()+1, tm, refmodel.ExpectedDifficulty(forks, p.ChainID, tm, refHdr(par)), par.GasLimit, 0, 0, salt)
	}
	// main chain c[0..9] on top of parent; c[9] is the including block
	chain := []*types.Header{}
	prev := parent
	for i := 0; i < 10; i++ {
		h := child(prev, p.Gaps[i%len(p.Gaps)], byte(i))
		chain = append(chain, h)
		prev = h
	}
	incl := chain[9]
	anc := func(depth int) *types.Header { // ancestor of incl at depth (1 = parent)
		return chain[9-depth]
	}
	sideOf := func(depth int, salt byte) *types.Header { // a side block whose parent is the ancestor at that depth
		par := anc(depth)
		return child(par, 7, 100+salt)
	}
	maxU := refmodel.MaxUncles(forks, incl.Number.Uint64())
	var uncles []*types.Header
	ancestorUncles := map[int][]*types.Header{} // depth -> uncles that ancestor included
	want := ""                                  // "" = accept
	depth := uc.Depth
	if depth < 2 {
		depth = 2
	}
	if depth > 7 {
		depth = 7
	}
	switch uc.Case {
	case uncleValid:
		n := uc.Count
		if n > maxU {
			n = maxU
		}
		for i := 0; i < n; i++ {
			uncles = append(uncles, sideOf(depth, byte(i)))
		}
	case uncleDuplicateOfAncestorsUncle:
		u := sideOf(depth, 0)
		by := uc.ByDepth
		if by >= depth { // the including ancestor must be below the uncle's parent... i.e. a descendant of it
			by = depth - 1
		}
		if by < 1 {
			by = 1
		}
		ancestorUncles[by] = []*types.Header{u}
		uncles = []*types.Header{u}
		want = "duplicate of an uncle an ancestor already included"
		if v1, v2 := refmodel.HeaderVersion(forks, u.Number.Uint64()), refmodel.HeaderVersion(forks, anc(by).Number.Uint64()); v1 != v2 {
			col.Inc("probe_duplicate_uncle_across_version_fork")
		}
	case uncleTwiceInBlock:
		u := sideOf(depth, 0)
		uncles = []*types.Header{u, u}
		want = "same uncle twice (or too many)"
	case uncleTooMany:
		for i := 0; i <= maxU; i++ {
			uncles = append(uncles, sideOf(depth, byte(i)))
		}
		want = "more uncles than the fork allows"
	case uncleIsAncestor:
		uncles = []*types.Header{anc(depth)}
		want = "uncle is an ancestor"
	case uncleParentTooOld:
		// parent at depth 8: one generation too old (chain has parent + 10 blocks: depth 8 = chain[1])
		par := anc(8)
		uncles = []*types.Header{child(par, 7, 150)}
		want = "uncle's parent is not among the 7 latest ancestors"
	case uncleSiblingOfBlock:
		uncles = []*types.Header{child(anc(1), 7, 160)}
		want = "uncle is a sibling of the block"
	case uncleInvalidHeader:
		u := sideOf(depth, 0)
		u.Difficulty = new(big.Int).Add(u.Difficulty, big.NewInt(1))
		uncles = []*types.Header{u}
		want = "uncle header breaks the difficulty rule"
	}
	// publish the chain (blocks carry the uncles their headers' owners included)
	r.mu.Lock()
	r.blocks[parent.Hash()] = types.NewBlockWithHeader(parent)
	for i, h := range chain[:9] {
		r.byHash[h.Hash()] = h
		d := 9 - i
		// as the node's store hands them out: Block.SetVersion stamps the uncles
		// with the including block's version, not with their own
		var stamped []*types.Header
		for _, u := range ancestorUncles[d] {
			cp := types.CopyHeader(u)
			cp.Version = h.Version
			stamped = append(stamped, cp)
		}
		r.blocks[h.Hash()] = types.NewBlockWithHeader(h).WithBody(nil, stamped)
	}
	r.mu.Unlock()
	blk := types.NewBlockWithHeader(incl).WithBody(nil, uncles)
	engine := aquahash.NewFaker()
	var err error
	var panicked any
	func() {
		defer func() { panicked = recover() }()
		err = engine.VerifyUncles(r, blk)
	}()
	col.Inc("uncle_sets_checked")
	col.Inc(fmt.Sprintf("uncle_case_%d", uc.Case))
	if panicked != nil {
		return []kernel.Violation{{Class: "uncle-verification-panic", Detail: fmt.Sprintf("case %+v: %v", *uc, panicked)}}
	}
	if want == "" && err != nil {
		return []kernel.Violation{{Class: "valid-uncle-set-rejected", Detail: fmt.Sprintf("forks %v parent #%d case %+v (%d uncles, max %d): engine says %v", p.Forks, p.Parent.Number, *uc, len(uncles), maxU, err)}}
	}
	if want != "" && err == nil {
		return []kernel.Violation{{Class: "invalid-uncle-set-accepted", Detail: fmt.Sprintf("forks %v parent #%d (including block #%d) case %+v: %s, yet VerifyUncles accepts", p.Forks, p.Parent.Number, incl.Number, *uc, want)}}
	}
	kernel.SetNonTrivial()
	return nil
}
