package schedsim

import (
	"encoding/json"
	"fmt"
	"sort"
	"testing"

	"gitlab.com/aquachain/aquachain/aqua/event"
	"verifsim/chainsim"
	"verifsim/kernel"
)

// ---- C19: event feeds deliver every value exactly once ---------------------------------

// FeedOp is one call of an actor's script.
type FeedOp struct {
	Kind string `json:"k"` // send | sub | unsub | poll | close | track-after-close
	Chan int    `json:"c,omitempty"`
	Val  int    `json:"v,omitempty"`
}

type FeedActor struct {
	Name string   `json:"name"`
	Ops  []FeedOp `json:"ops"`
}

// FeedPlan is the explicit description of one C19 execution.
type FeedPlan struct {
	Chans    []int       `json:"chans"` // buffer size per subscriber channel
	Actors   []FeedActor `json:"actors"`
	Scope    bool        `json:"scope"`    // subscriptions are tracked by a SubscriptionScope
	Sites    []string    `json:"sites"`    // enabled yield sites
	Schedule []int       `json:"schedule"` // choice k: release the (k mod #parked)-th parked actor
}

var feedSites = []string{"feed.Send.beforeLock", "feed.Send.locked", "feed.Send.unlocked", "feed.remove.afterInbox"}

func DecodeFeedPlan(raw json.RawMessage) (any, error) {
	p := &FeedPlan{}
	err := json.Unmarshal(raw, p)
	return p, err
}

func HashFeedPlan(p any) uint64 { b, _ := json.Marshal(p); return kernel.HashBytes(b) }

// GenFeedPlan draws senders, subscriber lifecycles, receivers and a schedule.
func GenFeedPlan(rng *kernel.RNG, env *kernel.Env, k int) any {
	p := &FeedPlan{Scope: rng.Bool(0.3)}
	nch := rng.Range(1, 4)
	for i := 0; i < nch; i++ {
		p.Chans = append(p.Chans, []int{0, 0, 1, 2, 4}[rng.Intn(5)])
	}
	ns := rng.Range(1, 3)
	val := 0
	for s := 0; s < ns; s++ {
		a := FeedActor{Name: fmt.Sprintf("sender%d", s)}
		for j := rng.Range(1, 3); j > 0; j-- {
			val++
			a.Ops = append(a.Ops, FeedOp{Kind: "send", Val: val})
		}
		p.Actors = append(p.Actors, a)
	}
	for c := 0; c < nch; c++ {
		// lifecycle of subscriber c
		a := FeedActor{Name: fmt.Sprintf("life%d", c), Ops: []FeedOp{{Kind: "sub", Chan: c}}}
		if rng.Bool(0.7) {
			a.Ops = append(a.Ops, FeedOp{Kind: "unsub", Chan: c})
			if rng.Bool(0.2) {
				a.Ops = append(a.Ops, FeedOp{Kind: "unsub", Chan: c}) // idempotent second call
			}
		}
		p.Actors = append(p.Actors, a)
		// its receiver: slow subscribers poll rarely
		r := FeedActor{Name: fmt.Sprintf("recv%d", c)}
		for j := rng.Range(0, 6); j > 0; j-- {
			r.Ops = append(r.Ops, FeedOp{Kind: "poll", Chan: c})
		}
		p.Actors = append(p.Actors, r)
	}
	if p.Scope && rng.Bool(0.7) {
		ops := []FeedOp{{Kind: "close"}}
		if rng.Bool(0.5) {
			ops = append(ops, FeedOp{Kind: "track-after-close", Chan: rng.Intn(nch)})
		}
		p.Actors = append(p.Actors, FeedActor{Name: "closer", Ops: ops})
	}
	// random subset of yield sites (buggify)
	for _, s := range feedSites {
		if rng.Bool(0.7) {
			p.Sites = append(p.Sites, s)
		}
	}
	n := rng.Range(10, 60)
	for i := 0; i < n; i++ {
		p.Schedule = append(p.Schedule, rng.Intn(64))
	}
	return p
}

type fev struct {
	step  int
	actor int
	idx   int
	kind  string // sendBegin sendEnd subBegin subEnd unsubBegin unsubEnd recv deliver closeBegin closeEnd
	ch    int
	val   int
	n     int
}

type feedRun struct {
	p      *FeedPlan
	s      *Sched
	feed   *event.Feed
	scope  *event.SubscriptionScope
	chans  []chan int
	subs   []event.Subscription
	evs    []fev
	vs     []kernel.Violation
	lens   []int
	closed bool
}

func (r *feedRun) log(kind string, actor, ch, val, n int) {
	r.evs = append(r.evs, fev{step: r.s.StepNow(), actor: actor, idx: len(r.evs), kind: kind, ch: ch, val: val, n: n})
}

func (r *feedRun) add(class, format string, a ...any) {
	r.vs = append(r.vs, kernel.Violation{Class: class, Step: r.s.StepNow(), Detail: fmt.Sprintf(format, a...)})
}

// ExecFeed runs one C19 plan.
func ExecFeed(t *testing.T, pa any, col *kernel.Collector) []kernel.Violation {
	p := pa.(*FeedPlan)
	var vs []kernel.Violation
	chainsim.Bubble(t, func() { vs = execFeed(p, col) })
	return vs
}

func execFeed(p *FeedPlan, col *kernel.Collector) []kernel.Violation {
	s := New()
	defer s.Close()
	s.Sites = map[string]bool{}
	for _, x := range p.Sites {
		s.Sites[x] = true
	}
	r := &feedRun{p: p, s: s, feed: new(event.Feed), scope: new(event.SubscriptionScope)}
	for _, b := range p.Chans {
		r.chans = append(r.chans, make(chan int, b))
		r.subs = append(r.subs, nil)
		r.lens = append(r.lens, 0)
	}
	var mu = make(chan struct{}, 1) // event log lock (a channel: never a non-durable block)
	mu <- struct{}{}
	lock := func() { <-mu }
	unlock := func() { mu <- struct{}{} }
	scopeActors := map[int]bool{}
	for ai, as := range p.Actors {
		ai, as := ai, as
		for _, op := range as.Ops {
			if p.Scope && (op.Kind == "unsub" || op.Kind == "close" || op.Kind == "track-after-close" || op.Kind == "sub") {
				scopeActors[ai] = true
			}
		}
		s.Spawn(as.Name, func(a *Actor) {
			for oi, op := range as.Ops {
				if oi > 0 {
					a.Park("call")
				}
				switch op.Kind {
				case "send":
					lock()
					r.log("sendBegin", ai, -1, op.Val, 0)
					unlock()
					n := r.feed.Send(op.Val)
					lock()
					r.log("sendEnd", ai, -1, op.Val, n)
					unlock()
				case "sub":
					if op.Chan >= len(r.chans) {
						continue
					}
					lock()
					r.log("subBegin", ai, op.Chan, 0, 0)
					unlock()
					var sub event.Subscription = r.feed.Subscribe(r.chans[op.Chan])
					if p.Scope {
						sub = r.scope.Track(sub)
					}
					lock()
					r.subs[op.Chan] = sub
					r.log("subEnd", ai, op.Chan, 0, 0)
					if p.Scope && sub == nil {
						r.log("trackNil", ai, op.Chan, 0, 0)
					}
					unlock()
				case "unsub":
					if op.Chan >= len(r.chans) {
						continue
					}
					lock()
					sub := r.subs[op.Chan]
					if sub != nil {
						r.log("unsubBegin", ai, op.Chan, 0, 0)
					}
					unlock()
					if sub == nil {
						continue
					}
					sub.Unsubscribe()
					lock()
					r.log("unsubEnd", ai, op.Chan, 0, 0)
					unlock()
				case "poll":
					if op.Chan >= len(r.chans) {
						continue
					}
					select {
					case v := <-r.chans[op.Chan]:
						lock()
						r.log("recv", ai, op.Chan, v, 0)
						unlock()
					default:
					}
				case "close":
					lock()
					r.log("closeBegin", ai, -1, 0, 0)
					unlock()
					r.scope.Close()
					lock()
					r.log("closeEnd", ai, -1, 0, 0)
					unlock()
				case "track-after-close":
					if op.Chan >= len(r.chans) {
						continue
					}
					extra := make(chan int, 1)
					fs := r.feed.Subscribe(extra)
					ts := r.scope.Track(fs)
					lock()
					if ts != nil {
						r.log("trackAfterCloseNonNil", ai, -1, 0, 0)
					}
					unlock()
					if ts != nil {
						ts.Unsubscribe()
					} else {
						fs.Unsubscribe()
					}
				}
			}
		})
	}
	s.Settle()
	midCall := func(a *Actor, parked bool) bool {
		return !parked || (a.Site() != "start" && a.Site() != "call")
	}
	releasable := func() []*Actor {
		// mutex rule: scope.Close holds the scope's sync.Mutex across a possibly
		// blocking Unsubscribe. While any scope operation is mid-call (in flight or
		// parked at a yield point inside its call) no other scope operation may be
		// started: it would block on that mutex, which is not a durable block.
		busy := false
		for _, a := range s.InFlight() {
			if scopeActors[a.ID] {
				busy = true
			}
		}
		ps := s.Parked()
		for _, a := range ps {
			if scopeActors[a.ID] && midCall(a, true) {
				busy = true
			}
		}
		var out []*Actor
		for _, a := range ps {
			if busy && scopeActors[a.ID] && !midCall(a, true) {
				continue
			}
			out = append(out, a)
		}
		return out
	}
	observe := func() {
		// deliveries into buffered channels are visible as length changes at rest
		lock()
		for c, ch := range r.chans {
			recvs := 0
			for i := len(r.evs) - 1; i >= 0 && r.evs[i].step == s.StepNow(); i-- {
				if r.evs[i].kind == "recv" && r.evs[i].ch == c {
					recvs++
				}
			}
			d := len(ch) - r.lens[c] + recvs
			r.lens[c] = len(ch)
			for ; d > 0; d-- {
				r.log("deliver", -1, c, 0, 0)
			}
		}
		unlock()
	}
	for _, k := range p.Schedule {
		col.Tick()
		ps := releasable()
		if len(ps) == 0 {
			break
		}
		s.Release(ps[k%len(ps)])
		observe()
	}
	// drain: release everything that can still move; the simulator itself polls
	// every channel so that no sender stays blocked on a slow subscriber
	for round := 0; round < 400 && !s.AllDone(); round++ {
		progressed := false
		if ps := releasable(); len(ps) > 0 {
			s.Release(ps[0])
			observe()
			progressed = true
		}
		for c, ch := range r.chans {
			select {
			case v := <-ch:
				s.mu.Lock()
				s.Step++
				s.mu.Unlock()
				lock()
				r.log("recv", -2, c, v, 0)
				unlock()
				s.Settle()
				observe()
				progressed = true
			default:
			}
		}
		if !progressed {
			break
		}
	}
	if !s.AllDone() {
		var stuck []string
		for _, a := range s.InFlight() {
			stuck = append(stuck, a.Name)
		}
		for _, a := range s.Parked() {
			stuck = append(stuck, a.Name+"@"+a.Site())
		}
		sort.Strings(stuck)
		r.add("deadlock", "after every receiver drained and every parked actor was released, these actors never finished: %v", stuck)
		col.Inc("runs_with_deadlock")
		return r.vs
	}
	// drain what is left in buffers
	for c, ch := range r.chans {
		for {
			select {
			case v := <-ch:
				s.mu.Lock()
				s.Step++
				s.mu.Unlock()
				r.log("recv", -2, c, v, 0)
				continue
			default:
			}
			break
		}
	}
	r.check(col)
	col.Add("steps", int64(s.Step))
	for site, n := range s.SiteHit {
		col.Add("yield_"+site, int64(n))
	}
	col.AddSim(0)
	// interleaving identity: the sequence of (actor, site) decisions
	col.MarkCase(kernel.HashString(fmt.Sprint(s.Trace)))
	kernel.SetNonTrivial()
	return r.vs
}

func before(a, b *fev) bool {
	if a == nil || b == nil {
		return false
	}
	return a.step < b.step || (a.step == b.step && a.actor == b.actor && a.idx < b.idx)
}

func (r *feedRun) check(col *kernel.Collector) {
	type chanInfo struct {
		subBegin, subEnd, unsubBegin, unsubEnd *fev
		recv                                   map[int]int
		order                                  []int
		trackNil                               bool
	}
	chans := make([]*chanInfo, len(r.chans))
	for i := range chans {
		chans[i] = &chanInfo{recv: map[int]int{}}
	}
	type sendInfo struct {
		begin, end *fev
		n          int
	}
	sends := map[int]*sendInfo{}
	var closeEnd *fev
	for i := range r.evs {
		e := &r.evs[i]
		switch e.kind {
		case "sendBegin":
			sends[e.val] = &sendInfo{begin: e}
		case "sendEnd":
			sends[e.val].end, sends[e.val].n = e, e.n
		case "subBegin":
			chans[e.ch].subBegin = e
		case "subEnd":
			chans[e.ch].subEnd = e
		case "trackNil":
			chans[e.ch].trackNil = true
		case "unsubBegin":
			if chans[e.ch].unsubBegin == nil {
				chans[e.ch].unsubBegin = e
			}
		case "unsubEnd":
			if chans[e.ch].unsubEnd == nil {
				chans[e.ch].unsubEnd = e
			}
		case "recv":
			chans[e.ch].recv[e.val]++
			chans[e.ch].order = append(chans[e.ch].order, e.val)
		case "closeEnd":
			closeEnd = e
		case "trackAfterCloseNonNil":
			r.add("scope-track-after-close-not-nil", "Track returned a subscription after Close had returned")
		}
	}
	// deliveries (value entering a channel) after Unsubscribe returned / after scope Close returned
	for i := range r.evs {
		e := &r.evs[i]
		if e.kind != "deliver" && !(e.kind == "recv" && cap(r.chans[e.ch]) == 0) {
			continue
		}
		ci := chans[e.ch]
		if ci.unsubEnd != nil && ci.unsubEnd.step < e.step {
			r.add("delivery-after-unsubscribe-returned", "channel %d received a value at step %d although Unsubscribe had returned at step %d", e.ch, e.step, ci.unsubEnd.step)
			return
		}
		if r.p.Scope && closeEnd != nil && closeEnd.step < e.step && ci.subEnd != nil && before(ci.subEnd, closeEnd) && !ci.trackNil {
			r.add("delivery-after-scope-close", "channel %d (tracked before Close) received a value at step %d although scope.Close had returned at step %d", e.ch, e.step, closeEnd.step)
			return
		}
	}
	for v, si := range sends {
		total := 0
		for c, ci := range chans {
			cnt := ci.recv[v]
			total += cnt
			if cnt > 1 {
				r.add("value-duplicated", "value %d was delivered %d times to channel %d", v, cnt, c)
				return
			}
			// only definite orders count (events of different actors inside one
			// scheduler step are concurrent): the send must have returned before any
			// unsubscription of c - direct or through the scope - began
			unsubMayHaveBegun := ci.unsubBegin != nil && !before(si.end, ci.unsubBegin)
			if r.p.Scope {
				for i := range r.evs {
					if r.evs[i].kind == "closeBegin" && !before(si.end, &r.evs[i]) {
						unsubMayHaveBegun = true
					}
				}
			}
			mustHave := ci.subEnd != nil && before(ci.subEnd, si.begin) && !unsubMayHaveBegun && !ci.trackNil && si.end != nil
			mustNot := (ci.unsubEnd != nil && before(ci.unsubEnd, si.begin)) || ci.subBegin == nil || before(si.end, ci.subBegin)
			if mustHave && cnt != 1 {
				r.add("value-lost", "value %d (send steps %d..%d) was never delivered to channel %d, which was subscribed at step %d and not unsubscribed before the send returned", v, si.begin.step, si.end.step, c, ci.subEnd.step)
				return
			}
			if mustNot && cnt != 0 {
				r.add("delivery-to-dead-subscription", "value %d was delivered to channel %d which was not subscribed during the send", v, c)
				return
			}
			if mustHave {
				col.Inc("obligations_exactly_once")
			}
		}
		if si.end != nil && si.n != total {
			r.add("send-count-wrong", "Send(%d) returned %d but %d deliveries of that value were observed", v, si.n, total)
			return
		}
	}
	// one common order
	pos := make([]map[int]int, len(chans))
	for c, ci := range chans {
		pos[c] = map[int]int{}
		for i, v := range ci.order {
			pos[c][v] = i
		}
	}
	for c := range chans {
		for d := c + 1; d < len(chans); d++ {
			for v, pv := range pos[c] {
				for w, pw := range pos[c] {
					qv, ok1 := pos[d][v]
					qw, ok2 := pos[d][w]
					if ok1 && ok2 && v != w && (pv < pw) != (qv < qw) {
						r.add("subscribers-disagree-on-order", "channel %d saw %d before %d, channel %d the other way round", c, v, w, d)
						return
					}
				}
			}
		}
	}
	// probes
	for _, ci := range chans {
		if ci.unsubBegin != nil {
			for _, si := range sends {
				if before(si.begin, ci.unsubBegin) && before(ci.unsubBegin, si.end) {
					col.Inc("probe_unsubscribe_during_send")
				}
			}
		}
	}
}

// ShrinkFeedPlan: shorter schedule, fewer actors/ops.
func ShrinkFeedPlan(pa any) []any {
	p := pa.(*FeedPlan)
	var out []any
	clone := func() *FeedPlan {
		b, _ := json.Marshal(p)
		q := &FeedPlan{}
		json.Unmarshal(b, q)
		return q
	}
	for size := len(p.Schedule) / 2; size >= 1; size /= 2 {
		for at := len(p.Schedule) - size; at >= 0; at -= size {
			q := clone()
			q.Schedule = append(append([]int{}, p.Schedule[:at]...), p.Schedule[at+size:]...)
			out = append(out, q)
		}
	}
	for i := range p.Actors {
		q := clone()
		q.Actors = append(append([]FeedActor{}, p.Actors[:i]...), p.Actors[i+1:]...)
		out = append(out, q)
		if len(p.Actors[i].Ops) > 1 {
			q2 := clone()
			q2.Actors[i].Ops = q2.Actors[i].Ops[:len(q2.Actors[i].Ops)-1]
			out = append(out, q2)
		}
	}
	for i := range p.Schedule {
		if p.Schedule[i] != 0 {
			q := clone()
			q.Schedule[i] = 0
			out = append(out, q)
		}
	}
	return out
}
