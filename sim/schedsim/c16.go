package schedsim

import (
	"context"
	"encoding/json"
	"fmt"
	"math/big"
	mrand "math/rand"
	"os"
	"testing"
	"testing/synctest"
	"time"

	"gitlab.com/aquachain/aquachain/aqua"
	"gitlab.com/aquachain/aquachain/aqua/event"
	"gitlab.com/aquachain/aquachain/aqua/filters"
	"gitlab.com/aquachain/aquachain/aquadb"
	"gitlab.com/aquachain/aquachain/common"
	"gitlab.com/aquachain/aquachain/common/bitutil"
	"gitlab.com/aquachain/aquachain/core"
	"gitlab.com/aquachain/aquachain/core/bloombits"
	"gitlab.com/aquachain/aquachain/core/types"
	"gitlab.com/aquachain/aquachain/params"
	"gitlab.com/aquachain/aquachain/rpc"
	"verifsim/chainsim"
	"verifsim/kernel"
	"verifsim/refmodel"
)

// ---- C16: blooms have no false negatives, log queries are exact --------------------------

type LogQuery struct {
	Begin    int64   `json:"begin"` // -1 = latest
	End      int64   `json:"end"`
	Addrs    []int   `json:"addrs"`  // indexes into the emitter list (negative = an address that never emits)
	Topics   [][]int `json:"topics"` // per position: alternatives (topic seeds; negative = absent value); empty = wildcard
	Schedule []int   `json:"schedule"`
	CancelAt int     `json:"cancel_at"` // cancel the context after this many releases (-1 never)
}

type LogOp struct {
	Kind   string    `json:"op"` // insert | index (let the indexer run) | query
	Blocks []int     `json:"blocks,omitempty"`
	Ms     int64     `json:"ms,omitempty"`
	Query  *LogQuery `json:"query,omitempty"`
}

type LogPlan struct {
	Recipe   chainsim.Recipe `json:"universe"`
	Section  uint64          `json:"section"`
	Confirms uint64          `json:"confirms"`
	Servers  int             `json:"servers"`
	Ops      []LogOp         `json:"ops"`
}

func DecodeLogPlan(raw json.RawMessage) (any, error) {
	p := &LogPlan{}
	err := json.Unmarshal(raw, p)
	return p, err
}
func HashLogPlan(p any) uint64 { b, _ := json.Marshal(p); return kernel.HashBytes(b) }

func emitters(u *chainsim.Universe) []common.Address {
	var out []common.Address
	for n := 0; n <= 4; n++ {
		out = append(out, u.Contracts[fmt.Sprintf("log%d", n)], u.Contracts[fmt.Sprintf("logb%d", n)])
	}
	return out
}

func GenLogPlan(rng *kernel.RNG, env *kernel.Env, k int) any {
	p := &LogPlan{Section: []uint64{8, 8, 16, 32}[rng.Intn(4)], Confirms: uint64(rng.Range(1, 12)), Servers: rng.Range(1, 4)}
	o := chainsim.GenOpts{MinMain: 30, MaxMain: 90, MaxForks: 2, MaxTx: 6, Uncles: false, ForkModes: []string{"nohf", "allhf", "staged"}}
	p.Recipe = chainsim.GenRecipe(rng, o)
	// log-heavy blocks
	for bi := range p.Recipe.Blocks {
		for ti := range p.Recipe.Blocks[bi].Txs {
			if rng.Bool(0.7) {
				t := &p.Recipe.Blocks[bi].Txs[ti]
				t.Kind, t.A, t.B = chainsim.TxLog, uint64(rng.Intn(10)), uint64(rng.Intn(20))
			}
		}
	}
	genQuery := func(maxBlock int) *LogQuery {
		q := &LogQuery{CancelAt: -1}
		switch rng.Intn(6) {
		case 0:
			q.Begin, q.End = -1, -1
		case 1:
			q.Begin, q.End = 0, -1
		case 2:
			q.Begin, q.End = int64(rng.Intn(maxBlock+1)), int64(maxBlock+rng.Intn(20)) // beyond head
		default:
			a, b := rng.Intn(maxBlock+1), rng.Intn(maxBlock+1)
			if a > b {
				a, b = b, a
			}
			q.Begin, q.End = int64(a), int64(b)
		}
		for i := rng.Intn(3); i > 0; i-- {
			if rng.Bool(0.15) {
				q.Addrs = append(q.Addrs, -1)
			} else {
				q.Addrs = append(q.Addrs, rng.Intn(10))
			}
		}
		for pos := rng.Intn(4); pos > 0; pos-- {
			var alts []int
			for i := rng.Intn(3); i > 0; i-- {
				if rng.Bool(0.15) {
					alts = append(alts, -1)
				} else {
					alts = append(alts, rng.Intn(7))
				}
			}
			q.Topics = append(q.Topics, alts)
		}
		for i := rng.Range(5, 60); i > 0; i-- {
			q.Schedule = append(q.Schedule, rng.Intn(64))
		}
		if rng.Bool(0.1) {
			q.CancelAt = rng.Intn(6)
		}
		return q
	}
	deliveries := chainsim.GenDeliveries(rng, &p.Recipe, 0, 0, 0.02, 12)
	seen := 0
	for _, d := range deliveries {
		p.Ops = append(p.Ops, LogOp{Kind: "insert", Blocks: d.Blocks})
		seen += len(d.Blocks)
		if rng.Bool(0.5) {
			p.Ops = append(p.Ops, LogOp{Kind: "index", Ms: int64(rng.Range(50, 3000))})
		}
		if rng.Bool(0.5) {
			p.Ops = append(p.Ops, LogOp{Kind: "query", Query: genQuery(seen)})
		}
	}
	p.Ops = append(p.Ops, LogOp{Kind: "index", Ms: 5000}, LogOp{Kind: "query", Query: genQuery(seen)}, LogOp{Kind: "query", Query: genQuery(seen)})
	return p
}

// refBloomBits is the independent 3 x 11-bit bloom function.
func refBloomBits(data []byte) [3]uint {
	h := refmodel.Keccak(data)
	var out [3]uint
	for i := 0; i < 3; i++ {
		out[i] = (uint(h[2*i])<<8 | uint(h[2*i+1])) & 2047
	}
	return out
}

func refBloomHas(bloom types.Bloom, data []byte) bool {
	for _, b := range refBloomBits(data) {
		if bloom[types.BloomByteLength-1-b/8]&(1<<(b%8)) == 0 {
			return false
		}
	}
	return true
}

// simBackend is the simulator-owned filters.Backend over a real node.
type simBackend struct {
	n        *chainsim.Node
	u        *chainsim.Universe
	indexer  *core.ChainIndexer
	size     uint64
	mux      *event.TypeMux
	requests chan chan *bloombits.Retrieval
}

func (b *simBackend) ChainDb() aquadb.Database { return b.n.Disk }
func (b *simBackend) GetHeaderVersion(n *big.Int) params.HeaderVersion {
	return b.u.Cfg.GetBlockVersion(n)
}
func (b *simBackend) EventMux() *event.TypeMux { return b.mux }
func (b *simBackend) HeaderByNumber(ctx context.Context, nr rpc.BlockNumber) (*types.Header, error) {
	if nr == rpc.LatestBlockNumber {
		return b.n.BC.CurrentBlock().Header(), nil
	}
	return b.n.BC.GetHeaderByNumber(uint64(nr)), nil
}
func (b *simBackend) GetReceipts(ctx context.Context, h common.Hash) (types.Receipts, error) {
	return core.GetBlockReceipts(b.n.Disk, h, core.GetBlockNumber(b.n.Disk, h)), nil
}
func (b *simBackend) GetLogs(ctx context.Context, h common.Hash) ([][]*types.Log, error) {
	rs := core.GetBlockReceipts(b.n.Disk, h, core.GetBlockNumber(b.n.Disk, h))
	if rs == nil {
		return nil, nil
	}
	logs := make([][]*types.Log, len(rs))
	for i, r := range rs {
		logs[i] = r.Logs
	}
	return logs, nil
}
func (b *simBackend) SubscribeTxPreEvent(ch chan<- core.TxPreEvent) event.Subscription {
	return event.NewSubscription(func(q <-chan struct{}) error { <-q; return nil })
}
func (b *simBackend) SubscribeChainEvent(ch chan<- core.ChainEvent) event.Subscription {
	return b.n.BC.SubscribeChainEvent(ch)
}
func (b *simBackend) SubscribeRemovedLogsEvent(ch chan<- core.RemovedLogsEvent) event.Subscription {
	return b.n.BC.SubscribeRemovedLogsEvent(ch)
}
func (b *simBackend) SubscribeLogsEvent(ch chan<- []*types.Log) event.Subscription {
	return b.n.BC.SubscribeLogsEvent(ch)
}
func (b *simBackend) BloomStatus() (uint64, uint64) {
	sections, _, _ := b.indexer.Sections()
	return b.size, sections
}
func (b *simBackend) ServiceFilter(ctx context.Context, session *bloombits.MatcherSession) {
	for i := 0; i < 3; i++ {
		go session.Multiplex(16, 0, b.requests)
	}
}

type logRun struct {
	p    *LogPlan
	u    *chainsim.Universe
	n    *chainsim.Node
	be   *simBackend
	col  *kernel.Collector
	s    *Sched
	vs   []kernel.Violation
	step int
}

func (r *logRun) add(class, format string, a ...any) {
	r.vs = append(r.vs, kernel.Violation{Class: class, Step: r.step, Detail: fmt.Sprintf(format, a...)})
}

func ExecLogs(t *testing.T, pa any, col *kernel.Collector) []kernel.Violation {
	p := pa.(*LogPlan)
	var vs []kernel.Violation
	chainsim.Bubble(t, func() { vs = execLogs(p, col) })
	return vs
}

func execLogs(p *LogPlan, col *kernel.Collector) []kernel.Violation {
	chainsim.ResetCrit()
	mrand.Seed(int64(HashLogPlan(p) & 0x7fffffffffffffff))
	u, err := chainsim.Build(&p.Recipe)
	if err != nil {
		col.Inc("universe_build_failed")
		return nil
	}
	defer func() { u.Close(); time.Sleep(3 * time.Second) }()
	r := &logRun{p: p, u: u, col: col}
	// (a) blooms have no false negatives: every receipt and header of the universe
	r.bloomCoverage()
	if len(r.vs) > 0 {
		return r.vs
	}
	n, err := chainsim.NewNode(u, chainsim.NodeCfg{Archive: true, Scale: 1})
	if err != nil {
		return nil
	}
	r.n = n
	s := New()
	defer s.Close()
	r.s = s
	indexer := aqua.NewBloomIndexerForSim(u.Cfg, n.Disk, p.Section, p.Confirms, 100*time.Millisecond)
	indexer.Start(n.BC)
	defer indexer.Close()
	r.be = &simBackend{n: n, u: u, indexer: indexer, size: p.Section, mux: new(event.TypeMux), requests: make(chan chan *bloombits.Retrieval)}
	// the retrieval service (stub mirroring the node's bloom handlers): gate-scheduled servers
	stop := make(chan struct{})
	defer close(stop)
	for i := 0; i < p.Servers; i++ {
		s.Spawn(fmt.Sprintf("server%d", i), func(a *Actor) {
			for {
				select {
				case <-stop:
					return
				case request := <-r.be.requests:
					task := <-request
					a.Park("serve") // the scheduler decides when (and in which order) answers go out
					task.Bitsets = make([][]byte, len(task.Sections))
					for i, section := range task.Sections {
						head := core.GetCanonicalHash(n.Disk, (section+1)*p.Section-1)
						if comp, err := core.GetBloomBits(n.Disk, task.Bit, section, head); err == nil {
							if blob, err := bitutil.DecompressBytes(comp, int(p.Section)/8); err == nil {
								task.Bitsets[i] = blob
							} else {
								task.Error = err
							}
						} else {
							task.Error = err
						}
					}
					request <- task
				}
			}
		})
	}
	s.Settle()
	// servers start by waiting for requests: release them off their start gate
	for _, a := range s.Parked() {
		s.Release(a)
	}
	for i, op := range p.Ops {
		col.Tick()
		r.step = i
		switch op.Kind {
		case "insert":
			if _, _, d, pan := n.Insert(op.Blocks); d != "" || pan != "" {
				r.add("import-panic", "died=%q panic=%s", d, pan)
				return r.vs
			}
			synctest.Wait()
		case "index":
			if os.Getenv("VERIF_DEBUG") != "" {
				a, b, _ := indexer.Sections()
				fmt.Printf("DEBUG before index op: head=%d sections=%d,%d\n", n.BC.CurrentBlock().NumberU64(), a, b)
			}
			time.Sleep(time.Duration(op.Ms) * time.Millisecond)
			col.AddSim(time.Duration(op.Ms) * time.Millisecond)
			synctest.Wait()
		case "query":
			r.query(op.Query)
		}
		if len(r.vs) > 0 {
			return r.vs
		}
	}
	if _, sections := r.be.BloomStatus(); sections > 0 {
		col.Inc("probe_runs_with_indexed_sections")
	}
	// teardown: nobody stays parked
	s.DisableSites()
	for i := 0; i < 1000; i++ {
		ps := s.Parked()
		if len(ps) == 0 {
			break
		}
		s.Release(ps[0])
	}
	kernel.SetNonTrivial()
	return r.vs
}

func (r *logRun) bloomCoverage() {
	u := r.u
	for id := 1; id < len(u.Blocks); id++ {
		b := u.Blocks[id]
		rs := u.O.GetReceiptsByHash(b.Hash())
		for ti, rc := range rs {
			for _, lg := range rc.Logs {
				items := [][]byte{lg.Address.Bytes()}
				for _, t := range lg.Topics {
					items = append(items, t.Bytes())
				}
				for _, it := range items {
					if !refBloomHas(rc.Bloom, it) {
						r.add("receipt-bloom-false-negative", "block id %d tx %d: %x is in a log but not in the receipt bloom", id, ti, it)
						return
					}
					if !refBloomHas(b.Bloom(), it) {
						r.add("block-bloom-false-negative", "block id %d tx %d: %x is in a log but not in the header bloom", id, ti, it)
						return
					}
					if !types.BloomLookup(b.Bloom(), common.BytesToHash(it)) && len(it) == 32 {
						r.add("bloom-lookup-false-negative", "block id %d: BloomLookup misses topic %x", id, it)
						return
					}
					r.col.Inc("bloom_memberships_checked")
				}
			}
		}
	}
}

func (r *logRun) criteria(q *LogQuery) ([]common.Address, [][]common.Hash) {
	em := emitters(r.u)
	var addrs []common.Address
	for _, a := range q.Addrs {
		if a < 0 {
			addrs = append(addrs, common.BytesToAddress(refmodel.Keccak([]byte("never-emits"))[12:]))
		} else {
			addrs = append(addrs, em[a%len(em)])
		}
	}
	var topics [][]common.Hash
	for _, alts := range q.Topics {
		var hs []common.Hash
		for _, t := range alts {
			if t < 0 {
				hs = append(hs, common.BytesToHash(refmodel.Keccak([]byte("absent-topic"))))
			} else {
				hs = append(hs, chainsim.TopicFor(uint64(t)))
			}
		}
		topics = append(topics, hs)
	}
	return addrs, topics
}

// bruteForce scans the canonical receipts in chain order.
func (r *logRun) bruteForce(q *LogQuery, addrs []common.Address, topics [][]common.Hash) []*types.Log {
	u := r.u
	head := r.n.HeadID()
	headNum := int64(u.Blocks[head].NumberU64())
	begin, end := q.Begin, q.End
	if begin == -1 {
		begin = headNum
	}
	if end == -1 {
		end = headNum
	}
	var out []*types.Log
	for _, id := range u.Path(0, head) {
		num := int64(u.Blocks[id].NumberU64())
		if num < begin || num > end {
			continue
		}
		for _, rc := range u.O.GetReceiptsByHash(u.Blocks[id].Hash()) {
			for _, lg := range rc.Logs {
				if len(addrs) > 0 {
					ok := false
					for _, a := range addrs {
						if a == lg.Address {
							ok = true
						}
					}
					if !ok {
						continue
					}
				}
				if len(topics) > len(lg.Topics) {
					continue
				}
				match := true
				for i, alts := range topics {
					if len(alts) == 0 {
						continue
					}
					hit := false
					for _, t := range alts {
						if lg.Topics[i] == t {
							hit = true
						}
					}
					if !hit {
						match = false
					}
				}
				if match {
					out = append(out, lg)
				}
			}
		}
	}
	return out
}

func (r *logRun) query(q *LogQuery) {
	addrs, topics := r.criteria(q)
	want := r.bruteForce(q, addrs, topics)
	f := filters.New(r.be, q.Begin, q.End, addrs, topics)
	ctx, cancel := context.WithCancel(context.Background())
	defer cancel()
	var got []*types.Log
	var qerr error
	done := false
	r.s.Spawn("query", func(a *Actor) {
		got, qerr = f.Logs(ctx)
		done = true
	})
	r.s.Settle()
	_, sections := r.be.BloomStatus()
	begin := q.Begin
	if begin == -1 {
		begin = int64(r.u.Blocks[r.n.HeadID()].NumberU64())
	}
	usesIndex := sections*r.p.Section > uint64(begin)
	cancelled := false
	releases := 0
	pick := func(k int) bool {
		ps := r.s.Parked()
		if len(ps) == 0 {
			return false
		}
		r.s.Release(ps[k%len(ps)])
		releases++
		return true
	}
	for _, k := range q.Schedule {
		if done {
			break
		}
		if q.CancelAt >= 0 && releases >= q.CancelAt && !cancelled {
			cancel()
			cancelled = true
			r.col.Inc("fault_query_context_cancelled")
			synctest.Wait()
		}
		if !pick(k) {
			break
		}
	}
	for i := 0; i < 100000 && !done; i++ {
		if !pick(0) {
			time.Sleep(time.Millisecond)
			synctest.Wait()
			if len(r.s.Parked()) == 0 && !done {
				break
			}
		}
	}
	if !done {
		r.add("log-query-never-finished", "Filter.Logs did not return although every retrieval server was released (begin %d end %d)", q.Begin, q.End)
		return
	}
	r.col.Inc("queries")
	if usesIndex {
		r.col.Inc("probe_query_used_bloombits_index")
		if uint64(begin) < sections*r.p.Section && (q.End == -1 || uint64(q.End) >= sections*r.p.Section) {
			r.col.Inc("probe_query_straddles_indexed_boundary")
		}
	}
	if cancelled {
		// a cancelled query may return a prefix and an error; it must not return wrong logs
		if len(got) > len(want) {
			r.add("cancelled-query-returned-extra-logs", "got %d logs, the full answer has %d", len(got), len(want))
		}
		for i := range got {
			if i < len(want) && !sameLog(got[i], want[i]) {
				r.add("cancelled-query-returned-wrong-logs", "log %d differs from the brute-force scan", i)
				return
			}
		}
		return
	}
	if qerr != nil {
		r.add("log-query-error", "Filter.Logs(begin %d end %d): %v", q.Begin, q.End, qerr)
		return
	}
	if len(got) != len(want) {
		r.add("log-query-differs-from-brute-force", "begin %d end %d addrs %v topics %v (indexed sections %d of size %d, head #%d): filter returned %d logs, brute-force scan of the canonical receipts %d", q.Begin, q.End, q.Addrs, q.Topics, sections, r.p.Section, r.u.Blocks[r.n.HeadID()].NumberU64(), len(got), len(want))
		return
	}
	for i := range got {
		if !sameLog(got[i], want[i]) {
			r.add("log-query-differs-from-brute-force", "log %d: filter returned block %d tx %d index %d, the scan block %d tx %d index %d", i, got[i].BlockNumber, got[i].TxIndex, got[i].Index, want[i].BlockNumber, want[i].TxIndex, want[i].Index)
			return
		}
	}
	if len(want) > 0 {
		r.col.Inc("probe_query_with_matches")
	}
}

func sameLog(a, b *types.Log) bool {
	if a.Address != b.Address || len(a.Topics) != len(b.Topics) || string(a.Data) != string(b.Data) || a.BlockNumber != b.BlockNumber || a.TxIndex != b.TxIndex || a.Index != b.Index {
		return false
	}
	for i := range a.Topics {
		if a.Topics[i] != b.Topics[i] {
			return false
		}
	}
	return true
}

func ShrinkLogPlan(pa any) []any {
	p := pa.(*LogPlan)
	var out []any
	for i := range p.Ops {
		if p.Ops[i].Kind == "query" {
			q := *p
			q.Ops = append(append([]LogOp{}, p.Ops[:i]...), p.Ops[i+1:]...)
			out = append(out, &q)
		}
	}
	return out
}
