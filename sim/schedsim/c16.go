package schedsim

import (
	"context"
	"encoding/json"
	"errors"
	"fmt"
	"math/big"
	mrand "math/rand"
	"os"
	"runtime"
	"strings"
	"testing"
	"testing/synctest"
	"time"

	"gitlab.com/aquachain/aquachain/aqua"
	"gitlab.com/aquachain/aquachain/aqua/event"
	"gitlab.com/aquachain/aquachain/aqua/filters"
	"gitlab.com/aquachain/aquachain/aquadb"
	"gitlab.com/aquachain/aquachain/common"
	"gitlab.com/aquachain/aquachain/common/bitutil"
	"gitlab.com/aquachain/aquachain/core"
	"gitlab.com/aquachain/aquachain/core/bloombits"
	"gitlab.com/aquachain/aquachain/core/types"
	"gitlab.com/aquachain/aquachain/params"
	"gitlab.com/aquachain/aquachain/rpc"
	"verifsim/chainsim"
	"verifsim/kernel"
	"verifsim/refmodel"
)

// ---- C16: blooms have no false negatives, log queries are exact --------------------------

type LogQuery struct {
	Begin    int64   `json:"begin"` // -1 = latest
	End      int64   `json:"end"`
	Addrs    []int   `json:"addrs"`  // indexes into the emitter list (negative = an address that never emits)
	Topics   [][]int `json:"topics"` // per position: alternatives (topic seeds; negative = absent value); empty = wildcard
	Schedule []int   `json:"schedule"`
	CancelAt int     `json:"cancel_at"` // cancel the context after this many releases (-1 never)
	// FailAt > 0: the FailAt-th bit-vector retrieval served during this query fails
	FailAt int `json:"fail_at,omitempty"`
	// ViaJSON: the criteria travel as the JSON object of the RPC API and are decoded by
	// FilterCriteria.UnmarshalJSON; NullAt[i] >= 0 puts a JSON null at that index of
	// position i's alternatives (a null anywhere in the list makes the position a wildcard)
	ViaJSON bool  `json:"via_json,omitempty"`
	NullAt  []int `json:"null_at,omitempty"`
}

type LogOp struct {
	Kind   string    `json:"op"` // insert | index (let the indexer run) | index-partial (N headers) | query
	N      int       `json:"n,omitempty"`
	Blocks []int     `json:"blocks,omitempty"`
	Ms     int64     `json:"ms,omitempty"`
	Query  *LogQuery `json:"query,omitempty"`
}

type LogPlan struct {
	Recipe   chainsim.Recipe `json:"universe"`
	Section  uint64          `json:"section"`
	Confirms uint64          `json:"confirms"`
	Servers  int             `json:"servers"`
	Ops      []LogOp         `json:"ops"`
	// StepIndexer: the indexer's section processing is adopted at its per-header yield
	// point; "index-partial" ops let it process only N headers before the next operation
	// (a reorganisation can then land inside the section being processed)
	StepIndexer bool `json:"step_indexer,omitempty"`
}

func DecodeLogPlan(raw json.RawMessage) (any, error) {
	p := &LogPlan{}
	err := json.Unmarshal(raw, p)
	return p, err
}
func HashLogPlan(p any) uint64 { b, _ := json.Marshal(p); return kernel.HashBytes(b) }

func emitters(u *chainsim.Universe) []common.Address {
	var out []common.Address
	for n := 0; n <= 4; n++ {
		out = append(out, u.Contracts[fmt.Sprintf("log%d", n)], u.Contracts[fmt.Sprintf("logb%d", n)])
	}
	return out
}

func GenLogPlan(rng *kernel.RNG, env *kernel.Env, k int) any {
	p := &LogPlan{Section: []uint64{8, 8, 16, 32}[rng.Intn(4)], Confirms: uint64(rng.Range(1, 12)), Servers: rng.Range(1, 4)}
	o := chainsim.GenOpts{MinMain: 30, MaxMain: 90, MaxForks: 2, MaxTx: 6, Uncles: false, ForkModes: []string{"nohf", "allhf", "staged"}}
	p.Recipe = chainsim.GenRecipe(rng, o)
	// log-heavy blocks
	for bi := range p.Recipe.Blocks {
		for ti := range p.Recipe.Blocks[bi].Txs {
			if rng.Bool(0.7) {
				t := &p.Recipe.Blocks[bi].Txs[ti]
				t.Kind, t.A, t.B = chainsim.TxLog, uint64(rng.Intn(10)), uint64(rng.Intn(20))
			}
		}
	}
	genQuery := func(maxBlock int) *LogQuery {
		q := &LogQuery{CancelAt: -1}
		switch rng.Intn(6) {
		case 0:
			q.Begin, q.End = -1, -1
		case 1:
			q.Begin, q.End = 0, -1
		case 2:
			q.Begin, q.End = int64(rng.Intn(maxBlock+1)), int64(maxBlock+rng.Intn(20)) // beyond head
		default:
			a, b := rng.Intn(maxBlock+1), rng.Intn(maxBlock+1)
			if a > b {
				a, b = b, a
			}
			q.Begin, q.End = int64(a), int64(b)
		}
		for i := rng.Intn(3); i > 0; i-- {
			if rng.Bool(0.15) {
				q.Addrs = append(q.Addrs, -1)
			} else {
				q.Addrs = append(q.Addrs, rng.Intn(10))
			}
		}
		for pos := rng.Intn(4); pos > 0; pos-- {
			var alts []int
			for i := rng.Intn(3); i > 0; i-- {
				if rng.Bool(0.15) {
					alts = append(alts, -1)
				} else {
					alts = append(alts, rng.Intn(7))
				}
			}
			q.Topics = append(q.Topics, alts)
		}
		for i := rng.Range(5, 60); i > 0; i-- {
			q.Schedule = append(q.Schedule, rng.Intn(64))
		}
		if rng.Bool(0.1) {
			q.CancelAt = rng.Intn(6)
		}
		// (FailAt, a failing bit-vector retrieval, is not generated: the session then closes
		// itself inside a sync.Once while Filter.Logs queues up on the same Once, and the
		// one-second kill timer the close waits for can never fire in a bubble that holds a
		// mutex-blocked goroutine. The fault stays available for plans written by hand.)
		if rng.Bool(0.3) {
			q.ViaJSON = true
			for _, alts := range q.Topics {
				k := -1
				if rng.Bool(0.5) {
					k = rng.Intn(len(alts) + 1)
				}
				q.NullAt = append(q.NullAt, k)
			}
		}
		return q
	}
	if k%7 == 5 {
		// a reorganisation that lands inside the section the indexer is processing: a main
		// chain just long enough to make section j eligible, then a heavier fork that starts
		// inside section j; the indexer is stopped part-way through the section when the fork
		// arrives
		p.StepIndexer = true
		p.Section = []uint64{8, 16}[rng.Intn(2)]
		p.Confirms = uint64(rng.Range(1, 3))
		S := int(p.Section)
		j := rng.Range(0, 2)
		L := S*(j+1) + int(p.Confirms) + rng.Intn(2) // main chain length
		forkAt := S*j + rng.Range(1, S-2)            // the fork's first block replaces main block forkAt+1
		acc := p.Recipe.Accounts
		mkTxs := func() []chainsim.TxRecipe {
			txs := chainsim.GenTxs(rng, acc, 4)
			for i := range txs {
				txs[i].Kind, txs[i].A, txs[i].B, txs[i].Value = chainsim.TxLog, uint64(rng.Intn(10)), uint64(rng.Intn(20)), 0
			}
			return txs
		}
		p.Recipe.Blocks = nil
		for i := 1; i <= L; i++ {
			p.Recipe.Blocks = append(p.Recipe.Blocks, chainsim.BlockRecipe{Parent: i - 1, Gap: 1000, Coinbase: 0, Txs: mkTxs()})
		}
		parent := forkAt
		var fork []int
		for i := forkAt + 1; i <= L+2; i++ {
			p.Recipe.Blocks = append(p.Recipe.Blocks, chainsim.BlockRecipe{Parent: parent, Gap: 5, Coinbase: 1 % acc, Txs: mkTxs(), Extra: "f"})
			parent = len(p.Recipe.Blocks)
			fork = append(fork, parent)
		}
		var main []int
		for i := 1; i <= L; i++ {
			main = append(main, i)
		}
		p.Ops = append(p.Ops, LogOp{Kind: "insert", Blocks: main})
		p.Ops = append(p.Ops, LogOp{Kind: "index-partial", N: j*S + rng.Range(1, S-1)})
		p.Ops = append(p.Ops, LogOp{Kind: "insert", Blocks: fork})
		p.Ops = append(p.Ops, LogOp{Kind: "index", Ms: 3000})
		for q := 0; q < 4; q++ {
			qq := &LogQuery{CancelAt: -1, Begin: int64(S * j), End: int64(S*(j+1) - 1)}
			if q%2 == 1 {
				qq.Begin, qq.End = 0, -1
			}
			switch rng.Intn(3) {
			case 0:
				qq.Addrs = []int{rng.Intn(10)}
			case 1:
				qq.Topics = [][]int{{rng.Intn(7)}}
			}
			for i := rng.Range(5, 40); i > 0; i-- {
				qq.Schedule = append(qq.Schedule, rng.Intn(64))
			}
			p.Ops = append(p.Ops, LogOp{Kind: "query", Query: qq})
		}
		return p
	}
	deliveries := chainsim.GenDeliveries(rng, &p.Recipe, 0, 0, 0.02, 12)
	seen := 0
	if rng.Bool(0.4) {
		p.StepIndexer = true
		p.Confirms = uint64(rng.Range(1, 3)) // shallow, so that a fork can reach into a section in progress
	}
	for _, d := range deliveries {
		if p.StepIndexer && rng.Bool(0.5) {
			p.Ops = append(p.Ops, LogOp{Kind: "index-partial", N: rng.Range(1, int(p.Section))})
		}
		p.Ops = append(p.Ops, LogOp{Kind: "insert", Blocks: d.Blocks})
		seen += len(d.Blocks)
		if rng.Bool(0.5) {
			p.Ops = append(p.Ops, LogOp{Kind: "index", Ms: int64(rng.Range(50, 3000))})
		}
		if rng.Bool(0.5) {
			p.Ops = append(p.Ops, LogOp{Kind: "query", Query: genQuery(seen)})
		}
	}
	p.Ops = append(p.Ops, LogOp{Kind: "index", Ms: 5000}, LogOp{Kind: "query", Query: genQuery(seen)}, LogOp{Kind: "query", Query: genQuery(seen)})
	return p
}

// refBloomBits is the independent 3 x 11-bit bloom function.
func refBloomBits(data []byte) [3]uint {
	h := refmodel.Keccak(data)
	var out [3]uint
	for i := 0; i < 3; i++ {
		out[i] = (uint(h[2*i])<<8 | uint(h[2*i+1])) & 2047
	}
	return out
}

func refBloomHas(bloom types.Bloom, data []byte) bool {
	for _, b := range refBloomBits(data) {
		if bloom[types.BloomByteLength-1-b/8]&(1<<(b%8)) == 0 {
			return false
		}
	}
	return true
}

// simBackend is the simulator-owned filters.Backend over a real node.
type simBackend struct {
	n        *chainsim.Node
	u        *chainsim.Universe
	indexer  *core.ChainIndexer
	size     uint64
	mux      *event.TypeMux
	requests chan chan *bloombits.Retrieval
}

func (b *simBackend) ChainDb() aquadb.Database { return b.n.Disk }
func (b *simBackend) GetHeaderVersion(n *big.Int) params.HeaderVersion {
	return b.u.Cfg.GetBlockVersion(n)
}
func (b *simBackend) EventMux() *event.TypeMux { return b.mux }
func (b *simBackend) HeaderByNumber(ctx context.Context, nr rpc.BlockNumber) (*types.Header, error) {
	if nr == rpc.LatestBlockNumber {
		return b.n.BC.CurrentBlock().Header(), nil
	}
	return b.n.BC.GetHeaderByNumber(uint64(nr)), nil
}
func (b *simBackend) GetReceipts(ctx context.Context, h common.Hash) (types.Receipts, error) {
	return core.GetBlockReceipts(b.n.Disk, h, core.GetBlockNumber(b.n.Disk, h)), nil
}
func (b *simBackend) GetLogs(ctx context.Context, h common.Hash) ([][]*types.Log, error) {
	rs := core.GetBlockReceipts(b.n.Disk, h, core.GetBlockNumber(b.n.Disk, h))
	if rs == nil {
		return nil, nil
	}
	logs := make([][]*types.Log, len(rs))
	for i, r := range rs {
		logs[i] = r.Logs
	}
	return logs, nil
}
func (b *simBackend) SubscribeTxPreEvent(ch chan<- core.TxPreEvent) event.Subscription {
	return event.NewSubscription(func(q <-chan struct{}) error { <-q; return nil })
}
func (b *simBackend) SubscribeChainEvent(ch chan<- core.ChainEvent) event.Subscription {
	return b.n.BC.SubscribeChainEvent(ch)
}
func (b *simBackend) SubscribeRemovedLogsEvent(ch chan<- core.RemovedLogsEvent) event.Subscription {
	return b.n.BC.SubscribeRemovedLogsEvent(ch)
}
func (b *simBackend) SubscribeLogsEvent(ch chan<- []*types.Log) event.Subscription {
	return b.n.BC.SubscribeLogsEvent(ch)
}
func (b *simBackend) BloomStatus() (uint64, uint64) {
	sections, _, _ := b.indexer.Sections()
	return b.size, sections
}
func (b *simBackend) ServiceFilter(ctx context.Context, session *bloombits.MatcherSession) {
	for i := 0; i < 3; i++ {
		go session.Multiplex(16, 0, b.requests)
	}
}

type logRun struct {
	p    *LogPlan
	u    *chainsim.Universe
	n    *chainsim.Node
	be   *simBackend
	col  *kernel.Collector
	s    *Sched
	vs   []kernel.Violation
	step int
	// retrieval fault of the query in progress
	served, failAt int
	failed         bool
	ungated        bool
	midSection     bool // the indexer is parked inside a section (index-partial)
}

func (r *logRun) add(class, format string, a ...any) {
	r.vs = append(r.vs, kernel.Violation{Class: class, Step: r.step, Detail: fmt.Sprintf(format, a...)})
}

func ExecLogs(t *testing.T, pa any, col *kernel.Collector) []kernel.Violation {
	p := pa.(*LogPlan)
	var vs []kernel.Violation
	chainsim.Bubble(t, func() { vs = execLogs(p, col) })
	return vs
}

func execLogs(p *LogPlan, col *kernel.Collector) []kernel.Violation {
	// matcher, scheduler and indexer goroutines race between the gates (a cancellation against a
	// completing query): one P, so that the interleaving is the runtime's run queue
	defer runtime.GOMAXPROCS(runtime.GOMAXPROCS(1))
	chainsim.ResetCrit()
	mrand.Seed(int64(HashLogPlan(p) & 0x7fffffffffffffff))
	u, err := chainsim.Build(&p.Recipe)
	if err != nil {
		col.Inc("universe_build_failed")
		return nil
	}
	defer func() { u.Close(); time.Sleep(3 * time.Second) }()
	r := &logRun{p: p, u: u, col: col}
	// (a) blooms have no false negatives: every receipt and header of the universe
	r.bloomCoverage()
	if len(r.vs) > 0 {
		return r.vs
	}
	n, err := chainsim.NewNode(u, chainsim.NodeCfg{Archive: true, Scale: 1})
	if err != nil {
		return nil
	}
	r.n = n
	s := New()
	defer s.Close()
	r.s = s
	const indexSite = "chainindexer.processSection.header"
	if p.StepIndexer {
		s.Sites = map[string]bool{indexSite: true}
		s.Adopt = map[string]bool{indexSite: true}
	} else {
		s.Sites = map[string]bool{}
	}
	indexerParked := func() []*Actor {
		var out []*Actor
		for _, a := range s.Parked() {
			if a.Adopted {
				out = append(out, a)
			}
		}
		return out
	}
	drainIndexer := func() {
		for i := 0; i < 100000; i++ {
			ps := indexerParked()
			if len(ps) == 0 {
				return
			}
			s.Release(ps[0])
		}
	}
	indexer := aqua.NewBloomIndexerForSim(u.Cfg, n.Disk, p.Section, p.Confirms, 100*time.Millisecond)
	indexer.Start(n.BC)
	defer indexer.Close()
	r.be = &simBackend{n: n, u: u, indexer: indexer, size: p.Section, mux: new(event.TypeMux), requests: make(chan chan *bloombits.Retrieval)}
	// the retrieval service (stub mirroring the node's bloom handlers): gate-scheduled servers
	stop := make(chan struct{})
	defer close(stop)
	// whatever the way out: nobody stays parked (the indexer's Close waits for its loops)
	defer func() {
		s.DisableSites()
		for i := 0; i < 1000; i++ {
			ps := s.Parked()
			if len(ps) == 0 {
				break
			}
			s.Release(ps[0])
		}
	}()
	for i := 0; i < p.Servers; i++ {
		s.Spawn(fmt.Sprintf("server%d", i), func(a *Actor) {
			for {
				select {
				case <-stop:
					return
				case request := <-r.be.requests:
					task := <-request
					if !r.ungated {
						a.Park("serve") // the scheduler decides when (and in which order) answers go out
					}
					r.served++
					if r.failAt > 0 && r.served == r.failAt {
						// the bit vector cannot be read (a missing or corrupt index entry).
						// The session now closes itself inside a sync.Once and waits for every
						// retrieval in flight, while Filter.Logs queues up on the same Once - a
						// mutex wait the bubble cannot sit out. From here on the servers answer
						// without the scheduler, so that the close can finish by itself.
						r.failed = true
						r.ungated = true
						for _, b := range s.Parked() {
							if b != a && strings.HasPrefix(b.Name, "server") {
								s.Unpark(b)
							}
						}
						task.Error = errors.New("simulated retrieval failure")
						r.col.Inc("fault_bloombits_retrieval_error")
						request <- task
						continue
					}
					task.Bitsets = make([][]byte, len(task.Sections))
					for i, section := range task.Sections {
						head := core.GetCanonicalHash(n.Disk, (section+1)*p.Section-1)
						if comp, err := core.GetBloomBits(n.Disk, task.Bit, section, head); err == nil {
							if blob, err := bitutil.DecompressBytes(comp, int(p.Section)/8); err == nil {
								task.Bitsets[i] = blob
							} else {
								task.Error = err
							}
						} else {
							task.Error = err
						}
					}
					request <- task
				}
			}
		})
	}
	s.Settle()
	// servers start by waiting for requests: release them off their start gate
	for _, a := range s.Parked() {
		s.Release(a)
	}
	for i, op := range p.Ops {
		col.Tick()
		r.step = i
		switch op.Kind {
		case "insert":
			before := n.BC.CurrentBlock()
			if _, _, d, pan := n.Insert(op.Blocks); d != "" || pan != "" {
				r.add("import-panic", "died=%q panic=%s", d, pan)
				return r.vs
			}
			synctest.Wait()
			if r.midSection {
				if after := n.BC.CurrentBlock(); after.ParentHash() != before.Hash() && after.Hash() != before.Hash() {
					col.Inc("probe_reorg_while_a_section_was_being_indexed")
				}
				r.midSection = false
			}
		case "index-partial":
			// let whatever section processing is under way advance by N headers only
			time.Sleep(150 * time.Millisecond)
			synctest.Wait()
			for k := 0; k < op.N; k++ {
				ps := indexerParked()
				for w := 0; w < 3 && len(ps) == 0; w++ {
					// between two sections the indexer sleeps for its throttling interval
					time.Sleep(120 * time.Millisecond)
					synctest.Wait()
					ps = indexerParked()
				}
				if len(ps) == 0 {
					break
				}
				s.Release(ps[0])
				col.Inc("indexer_headers_stepped")
			}
			if len(indexerParked()) > 0 {
				r.midSection = true
				col.Inc("probe_indexer_parked_inside_a_section")
			}
			continue // the next operation happens with the indexer parked mid-section
		case "index":
			if os.Getenv("VERIF_DEBUG") != "" {
				a, b, _ := indexer.Sections()
				fmt.Printf("DEBUG before index op: head=%d sections=%d,%d\n", n.BC.CurrentBlock().NumberU64(), a, b)
			}
			time.Sleep(time.Duration(op.Ms) * time.Millisecond)
			col.AddSim(time.Duration(op.Ms) * time.Millisecond)
			synctest.Wait()
		case "query":
			r.query(op.Query)
		}
		if len(r.vs) > 0 {
			return r.vs
		}
		if p.StepIndexer && !(i+1 < len(p.Ops) && p.Ops[i+1].Kind == "index-partial") {
			drainIndexer()
		}
	}
	if _, sections := r.be.BloomStatus(); sections > 0 {
		col.Inc("probe_runs_with_indexed_sections")
	}
	// teardown: nobody stays parked
	s.DisableSites()
	for i := 0; i < 1000; i++ {
		ps := s.Parked()
		if len(ps) == 0 {
			break
		}
		s.Release(ps[0])
	}
	kernel.SetNonTrivial()
	return r.vs
}

func (r *logRun) bloomCoverage() {
	u := r.u
	for id := 1; id < len(u.Blocks); id++ {
		b := u.Blocks[id]
		rs := u.O.GetReceiptsByHash(b.Hash())
		for ti, rc := range rs {
			for _, lg := range rc.Logs {
				items := [][]byte{lg.Address.Bytes()}
				for _, t := range lg.Topics {
					items = append(items, t.Bytes())
				}
				for _, it := range items {
					if !refBloomHas(rc.Bloom, it) {
						r.add("receipt-bloom-false-negative", "block id %d tx %d: %x is in a log but not in the receipt bloom", id, ti, it)
						return
					}
					if !refBloomHas(b.Bloom(), it) {
						r.add("block-bloom-false-negative", "block id %d tx %d: %x is in a log but not in the header bloom", id, ti, it)
						return
					}
					if !types.BloomLookup(b.Bloom(), common.BytesToHash(it)) && len(it) == 32 {
						r.add("bloom-lookup-false-negative", "block id %d: BloomLookup misses topic %x", id, it)
						return
					}
					r.col.Inc("bloom_memberships_checked")
				}
			}
		}
	}
}

func (r *logRun) criteria(q *LogQuery) ([]common.Address, [][]common.Hash) {
	em := emitters(r.u)
	var addrs []common.Address
	for _, a := range q.Addrs {
		if a < 0 {
			addrs = append(addrs, common.BytesToAddress(refmodel.Keccak([]byte("never-emits"))[12:]))
		} else {
			addrs = append(addrs, em[a%len(em)])
		}
	}
	var topics [][]common.Hash
	for _, alts := range q.Topics {
		var hs []common.Hash
		for _, t := range alts {
			if t < 0 {
				hs = append(hs, common.BytesToHash(refmodel.Keccak([]byte("absent-topic"))))
			} else {
				hs = append(hs, chainsim.TopicFor(uint64(t)))
			}
		}
		topics = append(topics, hs)
	}
	return addrs, topics
}

// bruteForce scans the canonical receipts in chain order.
func (r *logRun) bruteForce(q *LogQuery, addrs []common.Address, topics [][]common.Hash) []*types.Log {
	u := r.u
	head := r.n.HeadID()
	headNum := int64(u.Blocks[head].NumberU64())
	begin, end := q.Begin, q.End
	if begin == -1 {
		begin = headNum
	}
	if end == -1 {
		end = headNum
	}
	var out []*types.Log
	for _, id := range u.Path(0, head) {
		num := int64(u.Blocks[id].NumberU64())
		if num < begin || num > end {
			continue
		}
		for _, rc := range u.O.GetReceiptsByHash(u.Blocks[id].Hash()) {
			for _, lg := range rc.Logs {
				if len(addrs) > 0 {
					ok := false
					for _, a := range addrs {
						if a == lg.Address {
							ok = true
						}
					}
					if !ok {
						continue
					}
				}
				if len(topics) > len(lg.Topics) {
					continue
				}
				match := true
				for i, alts := range topics {
					if len(alts) == 0 {
						continue
					}
					hit := false
					for _, t := range alts {
						if lg.Topics[i] == t {
							hit = true
						}
					}
					if !hit {
						match = false
					}
				}
				if match {
					out = append(out, lg)
				}
			}
		}
	}
	return out
}

// viaJSON renders the criteria as the RPC API's JSON object (with the plan's nulls inside
// the alternative lists), decodes them with the real FilterCriteria.UnmarshalJSON and
// returns what the filter will be built from plus what the statement says they mean.
func (r *logRun) viaJSON(q *LogQuery, addrs []common.Address, topics [][]common.Hash) (begin, end int64, gotAddrs []common.Address, gotTopics, meant [][]common.Hash, err error) {
	blockTag := func(n int64) string {
		if n < 0 {
			return `"latest"`
		}
		return fmt.Sprintf(`"0x%x"`, n)
	}
	js := fmt.Sprintf(`{"fromBlock":%s,"toBlock":%s`, blockTag(q.Begin), blockTag(q.End))
	if len(addrs) == 1 {
		js += fmt.Sprintf(`,"address":"%s"`, addrs[0].Hex())
	} else if len(addrs) > 1 {
		js += `,"address":[`
		for i, a := range addrs {
			if i > 0 {
				js += ","
			}
			js += `"` + a.Hex() + `"`
		}
		js += "]"
	}
	js += `,"topics":[`
	for i, alts := range topics {
		if i > 0 {
			js += ","
		}
		null := -1
		if i < len(q.NullAt) {
			null = q.NullAt[i]
		}
		switch {
		case len(alts) == 0 && null < 0:
			js += "null"
			meant = append(meant, nil)
		case len(alts) == 1 && null < 0:
			js += `"` + alts[0].Hex() + `"`
			meant = append(meant, alts)
		default:
			js += "["
			n := 0
			for k := 0; k <= len(alts); k++ {
				if k == null {
					if n > 0 {
						js += ","
					}
					js += "null"
					n++
				}
				if k < len(alts) {
					if n > 0 {
						js += ","
					}
					js += `"` + alts[k].Hex() + `"`
					n++
				}
			}
			js += "]"
			if null >= 0 {
				meant = append(meant, nil) // a null among the alternatives: anything matches here
				r.col.Inc("probe_json_null_inside_alternatives")
			} else {
				meant = append(meant, alts)
			}
		}
	}
	js += "]}"
	var crit filters.FilterCriteria
	if err = json.Unmarshal([]byte(js), &crit); err != nil {
		return 0, 0, nil, nil, nil, fmt.Errorf("%v (%s)", err, js)
	}
	begin, end = q.Begin, q.End
	if crit.FromBlock != nil {
		begin = crit.FromBlock.Int64()
	}
	if crit.ToBlock != nil {
		end = crit.ToBlock.Int64()
	}
	return begin, end, crit.Addresses, crit.Topics, meant, nil
}

func (r *logRun) query(q *LogQuery) {
	addrs, topics := r.criteria(q)
	fb, fe, faddrs, ftopics := q.Begin, q.End, addrs, topics
	if q.ViaJSON {
		b, e, ga, gt, meant, err := r.viaJSON(q, addrs, topics)
		if err != nil {
			r.add("filter-criteria-json-rejected", "%v", err)
			return
		}
		if (b < 0) != (q.Begin < 0) || (b >= 0 && b != q.Begin) || (e < 0) != (q.End < 0) || (e >= 0 && e != q.End) {
			r.add("filter-criteria-json-range-wrong", "fromBlock/toBlock %d/%d decoded as %d/%d", q.Begin, q.End, b, e)
			return
		}
		if b < 0 {
			b = -1
		}
		if e < 0 {
			e = -1
		}
		fb, fe, faddrs, ftopics = b, e, ga, gt
		topics = meant // what the JSON object means
		r.col.Inc("probe_query_via_json_criteria")
	}
	want := r.bruteForce(q, addrs, topics)
	r.served, r.failAt, r.failed, r.ungated = 0, q.FailAt, false, false
	defer func() { r.failAt, r.ungated = 0, false }()
	f := filters.New(r.be, fb, fe, faddrs, ftopics)
	ctx, cancel := context.WithCancel(context.Background())
	defer cancel()
	var got []*types.Log
	var qerr error
	done := false
	r.s.Spawn("query", func(a *Actor) {
		got, qerr = f.Logs(ctx)
		done = true
	})
	r.s.Settle()
	_, sections := r.be.BloomStatus()
	begin := q.Begin
	if begin == -1 {
		begin = int64(r.u.Blocks[r.n.HeadID()].NumberU64())
	}
	usesIndex := sections*r.p.Section > uint64(begin)
	cancelled := false
	releases := 0
	pick := func(k int) bool {
		ps := r.s.Parked()
		if len(ps) == 0 {
			return false
		}
		r.s.Release(ps[k%len(ps)])
		releases++
		return true
	}
	for _, k := range q.Schedule {
		if done {
			break
		}
		if q.CancelAt >= 0 && releases >= q.CancelAt && !cancelled {
			cancel()
			cancelled = true
			r.col.Inc("fault_query_context_cancelled")
			synctest.Wait()
		}
		if !pick(k) {
			break
		}
	}
	for i := 0; i < 100000 && !done; i++ {
		if !pick(0) {
			time.Sleep(time.Millisecond)
			synctest.Wait()
			if len(r.s.Parked()) == 0 && !done {
				break
			}
		}
	}
	if !done {
		r.add("log-query-never-finished", "Filter.Logs did not return although every retrieval server was released (begin %d end %d)", q.Begin, q.End)
		return
	}
	r.col.Inc("queries")
	if usesIndex {
		r.col.Inc("probe_query_used_bloombits_index")
		if uint64(begin) < sections*r.p.Section && (q.End == -1 || uint64(q.End) >= sections*r.p.Section) {
			r.col.Inc("probe_query_straddles_indexed_boundary")
		}
	}
	if cancelled {
		// a cancelled query may return a prefix and an error; it must not return wrong logs
		if len(got) > len(want) {
			r.add("cancelled-query-returned-extra-logs", "got %d logs, the full answer has %d", len(got), len(want))
		}
		for i := range got {
			if i < len(want) && !sameLog(got[i], want[i]) {
				r.add("cancelled-query-returned-wrong-logs", "log %d differs from the brute-force scan", i)
				return
			}
		}
		return
	}
	if r.failed {
		// a bit vector could not be read: the query must say so, or still be complete;
		// what it may not do is return a shortened answer as if nothing had happened
		if qerr != nil {
			r.col.Inc("probe_retrieval_error_reported")
			return
		}
		if len(got) != len(want) {
			r.add("retrieval-error-silently-truncated-result", "a bloom-bits retrieval failed during the query (begin %d end %d); Filter.Logs returned %d logs and no error, the canonical receipts hold %d matching logs", q.Begin, q.End, len(got), len(want))
			return
		}
	}
	if qerr != nil {
		r.add("log-query-error", "Filter.Logs(begin %d end %d): %v", q.Begin, q.End, qerr)
		return
	}
	if len(got) != len(want) {
		r.add("log-query-differs-from-brute-force", "begin %d end %d addrs %v topics %v (indexed sections %d of size %d, head #%d): filter returned %d logs, brute-force scan of the canonical receipts %d", q.Begin, q.End, q.Addrs, q.Topics, sections, r.p.Section, r.u.Blocks[r.n.HeadID()].NumberU64(), len(got), len(want))
		return
	}
	for i := range got {
		if !sameLog(got[i], want[i]) {
			r.add("log-query-differs-from-brute-force", "log %d: filter returned block %d tx %d index %d, the scan block %d tx %d index %d", i, got[i].BlockNumber, got[i].TxIndex, got[i].Index, want[i].BlockNumber, want[i].TxIndex, want[i].Index)
			return
		}
	}
	if len(want) > 0 {
		r.col.Inc("probe_query_with_matches")
	}
}

func sameLog(a, b *types.Log) bool {
	if a.Address != b.Address || len(a.Topics) != len(b.Topics) || string(a.Data) != string(b.Data) || a.BlockNumber != b.BlockNumber || a.TxIndex != b.TxIndex || a.Index != b.Index {
		return false
	}
	for i := range a.Topics {
		if a.Topics[i] != b.Topics[i] {
			return false
		}
	}
	return true
}

func ShrinkLogPlan(pa any) []any {
	p := pa.(*LogPlan)
	var out []any
	for i := range p.Ops {
		if p.Ops[i].Kind == "query" {
			q := *p
			q.Ops = append(append([]LogOp{}, p.Ops[:i]...), p.Ops[i+1:]...)
			out = append(out, &q)
		}
	}
	return out
}
