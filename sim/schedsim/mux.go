package schedsim

import (
	"encoding/json"
	"fmt"
	"testing"

	"gitlab.com/aquachain/aquachain/aqua/event"
	"verifsim/chainsim"
	"verifsim/kernel"
)

// ---- C19, the older dispatcher in the same package (event.TypeMux): Post delivers
//      synchronously to every subscriber of the event's type -------------------------------

type muxEvA struct{ V int }
type muxEvB struct{ V int }

type MuxOp struct {
	Kind string `json:"k"` // post | sub | unsub | poll | stop
	Sub  int    `json:"s,omitempty"`
	Val  int    `json:"v,omitempty"`
	Typ  int    `json:"t,omitempty"` // post: 0 = type A, 1 = type B; sub: 0 = A, 1 = B, 2 = both
}

type MuxActor struct {
	Name string  `json:"name"`
	Ops  []MuxOp `json:"ops"`
}

type MuxPlan struct {
	Subs     int        `json:"subs"`
	Actors   []MuxActor `json:"mux_actors"`
	Schedule []int      `json:"schedule"`
}

func DecodeMuxPlan(raw json.RawMessage) (any, error) {
	p := &MuxPlan{}
	return p, json.Unmarshal(raw, p)
}
func HashMuxPlan(p any) uint64 { b, _ := json.Marshal(p); return kernel.HashBytes(b) }

func GenMuxPlan(rng *kernel.RNG, env *kernel.Env, k int) any {
	p := &MuxPlan{Subs: rng.Range(2, 5)}
	val := 0
	for s := rng.Range(1, 2); s > 0; s-- {
		a := MuxActor{Name: fmt.Sprintf("poster%d", s)}
		for j := rng.Range(1, 4); j > 0; j-- {
			val++
			a.Ops = append(a.Ops, MuxOp{Kind: "post", Val: val, Typ: rng.Intn(2)})
		}
		p.Actors = append(p.Actors, a)
	}
	for c := 0; c < p.Subs; c++ {
		life := MuxActor{Name: fmt.Sprintf("life%d", c), Ops: []MuxOp{{Kind: "sub", Sub: c, Typ: []int{0, 0, 1, 2, 2}[rng.Intn(5)]}}}
		if rng.Bool(0.6) {
			life.Ops = append(life.Ops, MuxOp{Kind: "unsub", Sub: c})
			if rng.Bool(0.2) {
				life.Ops = append(life.Ops, MuxOp{Kind: "unsub", Sub: c})
			}
		}
		p.Actors = append(p.Actors, life)
		r := MuxActor{Name: fmt.Sprintf("recv%d", c)}
		for j := rng.Range(0, 6); j > 0; j-- {
			r.Ops = append(r.Ops, MuxOp{Kind: "poll", Sub: c})
		}
		p.Actors = append(p.Actors, r)
	}
	if rng.Bool(0.2) {
		p.Actors = append(p.Actors, MuxActor{Name: "stopper", Ops: []MuxOp{{Kind: "stop"}}})
	}
	for i := rng.Range(10, 70); i > 0; i-- {
		p.Schedule = append(p.Schedule, rng.Intn(64))
	}
	return p
}

type mev struct {
	step int
	kind string // postBegin postEnd subEnd unsubBegin unsubEnd recv stopBegin
	sub  int
	val  int
	typ  int
	err  bool
}

func ExecMux(t *testing.T, pa any, col *kernel.Collector) []kernel.Violation {
	p := pa.(*MuxPlan)
	var vs []kernel.Violation
	chainsim.Bubble(t, func() { vs = execMux(p, col) })
	return vs
}

func execMux(p *MuxPlan, col *kernel.Collector) []kernel.Violation {
	s := New()
	defer s.Close()
	s.Sites = map[string]bool{}
	mux := new(event.TypeMux)
	subs := make([]*event.TypeMuxSubscription, p.Subs)
	subTyp := make([]int, p.Subs)
	var evs []mev
	var vs []kernel.Violation
	add := func(class, f string, a ...any) {
		vs = append(vs, kernel.Violation{Class: class, Step: s.StepNow(), Detail: fmt.Sprintf(f, a...)})
	}
	mu := make(chan struct{}, 1)
	mu <- struct{}{}
	lock := func() { <-mu }
	unlock := func() { mu <- struct{}{} }
	logev := func(e mev) {
		e.step = s.StepNow()
		evs = append(evs, e)
	}
	recvOne := func(c int, who int) bool {
		lock()
		sub := subs[c]
		unlock()
		if sub == nil {
			return false
		}
		select {
		case ev, ok := <-sub.Chan():
			if !ok || ev == nil {
				return false
			}
			lock()
			switch d := ev.Data.(type) {
			case muxEvA:
				logev(mev{kind: "recv", sub: c, val: d.V, typ: 0})
			case muxEvB:
				logev(mev{kind: "recv", sub: c, val: d.V, typ: 1})
			}
			unlock()
			return true
		default:
			return false
		}
	}
	for _, as := range p.Actors {
		as := as
		s.Spawn(as.Name, func(a *Actor) {
			for oi, op := range as.Ops {
				if oi > 0 {
					a.Park("call")
				}
				if op.Sub >= p.Subs {
					continue
				}
				switch op.Kind {
				case "post":
					lock()
					logev(mev{kind: "postBegin", val: op.Val, typ: op.Typ})
					unlock()
					var err error
					if op.Typ == 0 {
						err = mux.Post(muxEvA{op.Val})
					} else {
						err = mux.Post(muxEvB{op.Val})
					}
					lock()
					logev(mev{kind: "postEnd", val: op.Val, typ: op.Typ, err: err != nil})
					unlock()
				case "sub":
					var sub *event.TypeMuxSubscription
					switch op.Typ {
					case 0:
						sub = mux.Subscribe(muxEvA{})
					case 1:
						sub = mux.Subscribe(muxEvB{})
					default:
						sub = mux.Subscribe(muxEvA{}, muxEvB{})
					}
					lock()
					subs[op.Sub], subTyp[op.Sub] = sub, op.Typ
					logev(mev{kind: "subEnd", sub: op.Sub, typ: op.Typ})
					unlock()
				case "unsub":
					lock()
					sub := subs[op.Sub]
					if sub != nil {
						logev(mev{kind: "unsubBegin", sub: op.Sub})
					}
					unlock()
					if sub == nil {
						continue
					}
					sub.Unsubscribe()
					lock()
					logev(mev{kind: "unsubEnd", sub: op.Sub})
					unlock()
				case "poll":
					recvOne(op.Sub, a.ID)
				case "stop":
					lock()
					logev(mev{kind: "stopBegin"})
					unlock()
					mux.Stop()
				}
			}
		})
	}
	s.Settle()
	for _, k := range p.Schedule {
		col.Tick()
		ps := s.Parked()
		if len(ps) == 0 {
			break
		}
		s.Release(ps[k%len(ps)])
	}
	// drain: release whatever can move; the simulator polls every subscription so that no
	// poster stays blocked on a slow subscriber
	for round := 0; round < 600 && !s.AllDone(); round++ {
		progressed := false
		if ps := s.Parked(); len(ps) > 0 {
			s.Release(ps[0])
			progressed = true
		}
		for c := 0; c < p.Subs; c++ {
			if recvOne(c, -2) {
				s.mu.Lock()
				s.Step++
				s.mu.Unlock()
				s.Settle()
				progressed = true
			}
		}
		if !progressed {
			break
		}
	}
	if !s.AllDone() {
		var stuck []string
		for _, a := range s.InFlight() {
			stuck = append(stuck, a.Name)
		}
		add("mux-deadlock", "after the drain phase (every subscription polled until empty) these actors are still inside a call: %v", stuck)
		return vs
	}
	for c := 0; c < p.Subs; c++ {
		for recvOne(c, -2) {
		}
	}
	// ---- history oracle
	type key struct{ sub, val int }
	got := map[key]int{}
	for _, e := range evs {
		if e.kind == "recv" {
			got[key{e.sub, e.val}]++
			if got[key{e.sub, e.val}] > 1 {
				add("mux-event-duplicated", "subscription %d received event %d more than once", e.sub, e.val)
				return vs
			}
			if subTyp[e.sub] != 2 && subTyp[e.sub] != e.typ {
				add("mux-event-of-unsubscribed-type", "subscription %d (types %d) received an event of type %d", e.sub, subTyp[e.sub], e.typ)
				return vs
			}
		}
	}
	first := func(kind string, sub int) int {
		for _, e := range evs {
			if e.kind == kind && e.sub == sub {
				return e.step
			}
		}
		return -1
	}
	stopStep := -1
	for _, e := range evs {
		if e.kind == "stopBegin" {
			stopStep = e.step
			break
		}
	}
	for i, e := range evs {
		if e.kind != "postBegin" {
			continue
		}
		end, failed := -1, false
		for _, f := range evs[i+1:] {
			if f.kind == "postEnd" && f.val == e.val {
				end, failed = f.step, f.err
				break
			}
		}
		if end < 0 || failed || (stopStep >= 0 && stopStep <= end) {
			continue // refused or overlapped by Stop: no delivery obligation
		}
		for c := 0; c < p.Subs; c++ {
			subEnd, unsubBegin := first("subEnd", c), first("unsubBegin", c)
			if subEnd < 0 || !(subTyp[c] == 2 || subTyp[c] == e.typ) {
				continue
			}
			// definitely subscribed before the post began, and not unsubscribing before it returned
			if subEnd < e.step && (unsubBegin < 0 || unsubBegin > end) {
				if got[key{c, e.val}] != 1 {
					add("mux-event-lost", "event %d (type %d, posted at steps %d..%d) was delivered %d times to subscription %d, which subscribed at step %d and did not unsubscribe before the post returned", e.val, e.typ, e.step, end, got[key{c, e.val}], c, subEnd)
					return vs
				}
				col.Inc("mux_obligations_exactly_once")
			}
			if unsubEnd := first("unsubEnd", c); unsubEnd >= 0 && unsubEnd < e.step && got[key{c, e.val}] > 0 {
				add("mux-delivery-after-unsubscribe", "event %d posted at step %d reached subscription %d, whose Unsubscribe had returned at step %d", e.val, e.step, c, unsubEnd)
				return vs
			}
			if unsubBegin >= e.step && unsubBegin <= end {
				col.Inc("probe_mux_unsubscribe_during_post")
			}
		}
	}
	col.Inc("mux_histories_checked")
	kernel.SetNonTrivial()
	return vs
}

func ShrinkMuxPlan(p *MuxPlan) []any {
	var out []any
	for i := range p.Actors {
		q := *p
		q.Actors = append(append([]MuxActor{}, p.Actors[:i]...), p.Actors[i+1:]...)
		out = append(out, &q)
	}
	for i, a := range p.Actors {
		for j := range a.Ops {
			if len(a.Ops) < 2 {
				continue
			}
			q := *p
			q.Actors = append([]MuxActor{}, p.Actors...)
			na := a
			na.Ops = append(append([]MuxOp{}, a.Ops[:j]...), a.Ops[j+1:]...)
			q.Actors[i] = na
			out = append(out, &q)
		}
	}
	if len(p.Schedule) > 4 {
		q := *p
		q.Schedule = p.Schedule[:len(p.Schedule)/2]
		out = append(out, &q)
	}
	return out
}
