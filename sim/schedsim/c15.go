package schedsim

import (
	"encoding/json"
	"fmt"
	"math/big"
	mrand "math/rand"
	"os"
	"sort"
	"testing"
	"testing/synctest"
	"time"

	"gitlab.com/aquachain/aquachain/common"
	"gitlab.com/aquachain/aquachain/core"
	"gitlab.com/aquachain/aquachain/core/types"
	"verifsim/chainsim"
	"verifsim/kernel"
)

// ---- C15: the pool's pending transactions are executable, ordered, bounded --------------

type PoolTx struct {
	From     int    `json:"f"`
	NonceOff int    `json:"n"` // nonce = sender's chain nonce at the node's head + NonceOff (+ pooled count when Next)
	Next     bool   `json:"next,omitempty"`
	Price    uint64 `json:"p"`
	Value    string `json:"v"`
	Gas      uint64 `json:"g"`
	To       int    `json:"to"`
	Ref      []int  `json:"ref,omitempty"` // [block id, index]: submit exactly that universe transaction
	// Fit > 0: the value is chosen so that the transaction is exactly affordable at
	// FitPrice against the sender's balance after universe block Fit (a later head)
	Fit      int    `json:"fit,omitempty"`
	FitPrice uint64 `json:"fit_price,omitempty"`
}

type PoolOp struct {
	Kind   string   `json:"op"` // add | insert | gasprice | advance | reset
	Local  bool     `json:"local,omitempty"`
	Txs    []PoolTx `json:"txs,omitempty"`
	Blocks []int    `json:"blocks,omitempty"`
	Price  uint64   `json:"price,omitempty"`
	Ms     int64    `json:"ms,omitempty"`
}

type PoolCfg struct {
	AccountSlots uint64 `json:"account_slots"`
	GlobalSlots  uint64 `json:"global_slots"`
	AccountQueue uint64 `json:"account_queue"`
	GlobalQueue  uint64 `json:"global_queue"`
	PriceBump    uint64 `json:"price_bump"`
	PriceLimit   uint64 `json:"price_limit"`
	LifetimeS    int64  `json:"lifetime_s"`
}

type PoolPlan struct {
	Recipe     chainsim.Recipe  `json:"universe"`
	Node       chainsim.NodeCfg `json:"node"`
	Cfg        PoolCfg          `json:"pool"`
	DelayReset bool             `json:"delay_reset"` // park the pool's loop at its head-event handler; "reset" ops release it
	Ops        []PoolOp         `json:"ops"`
}

func DecodePoolPlan(raw json.RawMessage) (any, error) {
	p := &PoolPlan{}
	err := json.Unmarshal(raw, p)
	return p, err
}
func HashPoolPlan(p any) uint64 { b, _ := json.Marshal(p); return kernel.HashBytes(b) }

const gwei = 1_000_000_000

// GenPoolPlan draws a pool history.
func GenPoolPlan(rng *kernel.RNG, env *kernel.Env, k int) any {
	p := &PoolPlan{DelayReset: rng.Bool(0.5)}
	o := chainsim.GenOpts{MinMain: 3, MaxMain: 10, MaxForks: 2, MaxTx: 5, Uncles: false, ForkModes: []string{"nohf", "allhf", "staged"}}
	p.Recipe = chainsim.GenRecipe(rng, o)
	p.Recipe.Balance = "1000000000000000000" // 1e18 wei: affordability matters
	// plain transfers only, with prices the pool accepts, so that universe
	// transactions can be pooled and then mined
	for bi := range p.Recipe.Blocks {
		for ti := range p.Recipe.Blocks[bi].Txs {
			t := &p.Recipe.Blocks[bi].Txs[ti]
			t.Kind = chainsim.TxTransfer
			t.Price = uint64(rng.Range(1, 5)) * gwei
			if rng.Bool(0.2) {
				t.Value = uint64(rng.Range(1, 9)) * 100_000_000_000_000_000 // 0.1 .. 0.9 of the balance
			}
		}
	}
	p.Node = chainsim.NodeCfg{Archive: true, Scale: 1}
	p.Cfg = PoolCfg{AccountSlots: uint64(rng.Range(1, 4)), GlobalSlots: uint64(rng.Range(2, 12)), AccountQueue: uint64(rng.Range(1, 5)), GlobalQueue: uint64(rng.Range(2, 10)),
		PriceBump: []uint64{1, 10, 50}[rng.Intn(3)], PriceLimit: 1, LifetimeS: 120}
	if rng.Bool(0.5) { // roomy limits: the reorg re-injection clause is only judged there
		p.Cfg.AccountSlots, p.Cfg.GlobalSlots, p.Cfg.AccountQueue, p.Cfg.GlobalQueue = 16, 4096, 64, 1024
	}
	deliveries := chainsim.GenDeliveries(rng, &p.Recipe, 0, 0, 0.05, 3)
	acc := p.Recipe.Accounts
	genTx := func() PoolTx {
		t := PoolTx{From: rng.Intn(acc), To: rng.Intn(acc), Gas: 21000, Price: uint64(rng.Range(1, 6)) * gwei, Value: "1000"}
		switch rng.Intn(10) {
		case 0:
			t.NonceOff = -1
		case 1, 2:
			t.NonceOff = rng.Range(1, 4) // gap: queued
		case 3:
			t.NonceOff = rng.Range(5, 30)
		case 4, 5, 6, 7:
			t.Next = true // next free nonce: extends pending
		default:
			t.NonceOff = rng.Intn(3) // may hit an occupied nonce: replacement
		}
		switch rng.Intn(10) {
		case 0:
			t.Value = "2000000000000000000" // unaffordable
		case 1:
			t.Value = "900000000000000000" // affordable alone, starves later ones once mined
		case 2:
			t.Gas = 50_000_000 // above the block gas limit
		case 3:
			t.Gas = 20999 // below intrinsic
		case 4:
			t.Price = 0
		}
		return t
	}
	for _, d := range deliveries {
		// submissions before the head moves; some are the very transactions the next blocks mine
		for i := rng.Intn(4); i > 0; i-- {
			op := PoolOp{Kind: "add", Local: rng.Bool(0.15)}
			for j := rng.Range(1, 4); j > 0; j-- {
				if rng.Bool(0.3) && len(d.Blocks) > 0 {
					b := d.Blocks[rng.Intn(len(d.Blocks))]
					if n := len(p.Recipe.Blocks[b-1].Txs); n > 0 {
						op.Txs = append(op.Txs, PoolTx{Ref: []int{b, rng.Intn(n)}})
						continue
					}
				}
				op.Txs = append(op.Txs, genTx())
			}
			p.Ops = append(p.Ops, op)
		}
		if rng.Bool(0.1) {
			p.Ops = append(p.Ops, PoolOp{Kind: "gasprice", Price: uint64(rng.Range(1, 4)) * gwei})
		}
		if rng.Bool(0.12) {
			// a burst: three or four senders submit runs of different lengths in one batch, far
			// beyond the slots - the pool has to cut several accounts back at once
			op := PoolOp{Kind: "add"}
			senders := rng.Range(3, 4)
			for sd := 0; sd < senders && sd < acc; sd++ {
				for j, n := 0, rng.Range(2, 9); j < n; j++ {
					op.Txs = append(op.Txs, PoolTx{From: sd, To: rng.Intn(acc), Gas: 21000, Price: uint64(rng.Range(1, 6)) * gwei, Value: "1000", NonceOff: j})
				}
			}
			p.Ops = append(p.Ops, op)
			// then a resend at each sender's next nonce
			for sd := 0; sd < senders && sd < acc; sd++ {
				p.Ops = append(p.Ops, PoolOp{Kind: "add", Txs: []PoolTx{{From: sd, To: rng.Intn(acc), Gas: 21000, Price: 7 * gwei, Value: "1000", Next: true}}})
			}
		}
		if rng.Bool(0.35) && len(d.Blocks) > 0 {
			// a transaction exactly affordable at the head this delivery leads to, then its
			// price-bumped replacement (which costs more than that head's balance allows)
			from, to, price := rng.Intn(acc), rng.Intn(acc), uint64(rng.Range(1, 5))*gwei
			tip := d.Blocks[len(d.Blocks)-1]
			p.Ops = append(p.Ops, PoolOp{Kind: "add", Txs: []PoolTx{{From: from, To: to, Gas: 21000, Price: price, Value: "0", Fit: tip, FitPrice: price}}})
			p.Ops = append(p.Ops, PoolOp{Kind: "add", Txs: []PoolTx{{From: from, To: to, Gas: 21000, Price: price*2 + gwei, Value: "0", Fit: tip, FitPrice: price}}})
		}
		p.Ops = append(p.Ops, PoolOp{Kind: "insert", Blocks: d.Blocks})
		if p.DelayReset {
			// submissions that land after the chain moved but before the pool reset
			for i := rng.Intn(3); i > 0; i-- {
				p.Ops = append(p.Ops, PoolOp{Kind: "add", Txs: []PoolTx{genTx()}})
			}
			p.Ops = append(p.Ops, PoolOp{Kind: "reset"})
		}
		if rng.Bool(0.1) {
			p.Ops = append(p.Ops, PoolOp{Kind: "advance", Ms: int64(rng.Range(30, 400)) * 1000})
		}
	}
	return p
}

type poolRun struct {
	p          *PoolPlan
	u          *chainsim.Universe
	n          *chainsim.Node
	pool       *core.TxPool
	col        *kernel.Collector
	s          *Sched
	vs         []kernel.Violation
	maybeLocal map[common.Address]bool
	signer     types.Signer
	step       int
	// a reorganisation whose re-injection is judged after the delayed reset
	pendingReorg    [2]int
	hasPendingReorg bool
	// the last add found the pool at its global capacity
	lastAddPoolFull bool
}

func (r *poolRun) add(class, format string, a ...any) {
	r.vs = append(r.vs, kernel.Violation{Class: class, Step: r.step, Detail: fmt.Sprintf(format, a...)})
}

func ExecPool(t *testing.T, pa any, col *kernel.Collector) []kernel.Violation {
	p := pa.(*PoolPlan)
	var vs []kernel.Violation
	chainsim.Bubble(t, func() { vs = execPool(p, col) })
	return vs
}

func execPool(p *PoolPlan, col *kernel.Collector) []kernel.Violation {
	simStart := time.Now() // the bubble's clock: elapsed = simulated time
	defer func() { col.AddSim(time.Since(simStart)) }()
	chainsim.ResetCrit()
	mrand.Seed(int64(HashPoolPlan(p) & 0x7fffffffffffffff))
	u, err := chainsim.Build(&p.Recipe)
	if err != nil {
		col.Inc("universe_build_failed")
		return nil
	}
	defer func() { u.Close(); time.Sleep(3 * time.Second) }()
	n, err := chainsim.NewNode(u, p.Node)
	if err != nil {
		return nil
	}
	s := New()
	defer s.Close()
	s.Sites = map[string]bool{}
	s.Adopt = map[string]bool{}
	if p.DelayReset {
		s.Sites["txpool.loop.head"] = true
		s.Adopt["txpool.loop.head"] = true
	}
	cfg := core.TxPoolConfig{NoLocals: false, Journal: "", Rejournal: time.Hour, PriceLimit: p.Cfg.PriceLimit, PriceBump: p.Cfg.PriceBump,
		AccountSlots: p.Cfg.AccountSlots, GlobalSlots: p.Cfg.GlobalSlots, AccountQueue: p.Cfg.AccountQueue, GlobalQueue: p.Cfg.GlobalQueue,
		Lifetime: time.Duration(p.Cfg.LifetimeS) * time.Second}
	pool := core.NewTxPool(cfg, u.Cfg, n.BC)
	defer func() {
		// let a parked loop go before stopping, and never park it again
		s.DisableSites()
		for _, a := range s.Parked() {
			s.Release(a)
		}
		pool.Stop()
	}()
	r := &poolRun{p: p, u: u, n: n, pool: pool, col: col, s: s, maybeLocal: map[common.Address]bool{}, signer: types.NewEIP155Signer(u.Cfg.ChainId)}
	synctest.Wait()
	for i, op := range p.Ops {
		col.Tick()
		r.step = i
		r.lastAddPoolFull = false
		switch op.Kind {
		case "add":
			r.opAdd(op)
		case "insert":
			r.opInsert(op)
		case "gasprice":
			pool.SetGasPrice(new(big.Int).SetUint64(op.Price))
			col.Inc("op_set_gas_price")
		case "advance":
			time.Sleep(time.Duration(op.Ms) * time.Millisecond)
			col.AddSim(time.Duration(op.Ms) * time.Millisecond)
			col.Inc("fault_clock_advance")
		case "reset":
			for _, a := range s.Parked() {
				s.Release(a)
				col.Inc("probe_reset_delayed_past_submissions")
			}
			synctest.Wait()
			if r.hasPendingReorg && len(s.Parked()) == 0 {
				r.hasPendingReorg = false
				r.checkReinjection(r.pendingReorg[0], r.pendingReorg[1])
			}
		}
		synctest.Wait()
		if os.Getenv("VERIF_DEBUG") != "" {
			var names []string
			for _, a := range s.Parked() {
				names = append(names, a.Name)
			}
			fmt.Printf("DEBUG after step %d (%s): parked=%v head=%d\n", i, op.Kind, names, n.HeadID())
		}
		if len(r.vs) > 0 {
			return r.vs
		}
		if len(s.Parked()) == 0 { // the pool has caught up with the chain head: at rest
			r.invariants()
			if len(r.vs) > 0 {
				return r.vs
			}
		} else {
			r.structural()
			if len(r.vs) > 0 {
				return r.vs
			}
		}
	}
	kernel.SetNonTrivial()
	return r.vs
}

func (r *poolRun) mkTx(t PoolTx) *types.Transaction {
	if len(t.Ref) == 2 {
		b, i := t.Ref[0], t.Ref[1]
		if b > 0 && b < len(r.u.Blocks) && i < len(r.u.Blocks[b].Transactions()) {
			return r.u.Blocks[b].Transactions()[i]
		}
		return nil
	}
	from := t.From % len(r.u.Keys)
	st, err := r.n.BC.State()
	if err != nil {
		return nil
	}
	nonce := int64(st.GetNonce(r.u.Addrs[from])) + int64(t.NonceOff)
	if t.Next {
		nonce = int64(r.pool.State().GetNonce(r.u.Addrs[from]))
	}
	if nonce < 0 {
		nonce = 0
	}
	val, ok := new(big.Int).SetString(t.Value, 10)
	if !ok {
		val = big.NewInt(0)
	}
	if t.Fit > 0 && t.Fit < len(r.u.Blocks) {
		if fst, err := r.u.O.StateAt(r.u.Blocks[t.Fit].Root()); err == nil {
			v := new(big.Int).Sub(fst.GetBalance(r.u.Addrs[from]), new(big.Int).Mul(big.NewInt(int64(t.Gas)), new(big.Int).SetUint64(t.FitPrice)))
			if v.Sign() > 0 {
				val = v
				r.col.Inc("probe_tx_fitted_to_a_later_heads_balance")
			}
		}
	}
	tx := types.NewTransaction(uint64(nonce), r.u.Addrs[t.To%len(r.u.Addrs)], val, t.Gas, new(big.Int).SetUint64(t.Price), nil)
	signed, err := types.SignTx(tx, types.MakeSigner(r.u.Cfg, r.n.BC.CurrentBlock().Number()), r.u.Keys[from])
	if err != nil {
		return nil
	}
	return signed
}

func (r *poolRun) pooled() map[common.Address]map[uint64]*types.Transaction {
	out := map[common.Address]map[uint64]*types.Transaction{}
	pend, queue := r.pool.Content()
	for _, m := range []map[common.Address]types.Transactions{pend, queue} {
		for a, txs := range m {
			if out[a] == nil {
				out[a] = map[uint64]*types.Transaction{}
			}
			for _, tx := range txs {
				out[a][tx.Nonce()] = tx
			}
		}
	}
	return out
}

func (r *poolRun) opAdd(op PoolOp) {
	var txs []*types.Transaction
	for _, t := range op.Txs {
		if tx := r.mkTx(t); tx != nil {
			txs = append(txs, tx)
		}
	}
	if len(txs) == 0 {
		return
	}
	before := r.pooled()
	total := 0
	for _, m := range before {
		total += len(m)
	}
	// did this submission find the pool full (so that the pool evicted the cheapest
	// non-local transactions to make room, demoting their senders' later ones)?
	r.lastAddPoolFull = uint64(total+len(txs)) >= r.p.Cfg.GlobalSlots+r.p.Cfg.GlobalQueue
	for _, tx := range txs {
		if from, err := types.Sender(r.signer, tx); err == nil && op.Local {
			r.maybeLocal[from] = true
		}
	}
	var errs []error
	if op.Local {
		errs = r.pool.AddLocals(txs)
	} else {
		errs = r.pool.AddRemotes(txs)
	}
	r.col.Add("op_add_txs", int64(len(txs)))
	synctest.Wait()
	after := r.pooled()
	if os.Getenv("VERIF_DEBUG") != "" {
		dump := func(m map[common.Address]map[uint64]*types.Transaction) string {
			s := ""
			for a, mm := range m {
				s += fmt.Sprintf(" %x:", a[:2])
				for n, tx := range mm {
					s += fmt.Sprintf("[%d@%v]", n, new(big.Int).Div(tx.GasPrice(), big.NewInt(gwei)))
				}
			}
			return s
		}
		pe, qu := r.pool.Content()
		np, nq := 0, 0
		for _, t := range pe {
			np += len(t)
		}
		for _, t := range qu {
			nq += len(t)
		}
		fmt.Printf("DEBUG step %d local=%v errs=%v\n  before:%s\n  after:%s (pending %d queued %d)\n", r.step, op.Local, errs, dump(before), dump(after), np, nq)
	}
	// a same-nonce replacement happened only with the configured price bump
	for _, tx := range txs {
		from, err := types.Sender(r.signer, tx)
		if err != nil {
			continue
		}
		old := before[from][tx.Nonce()]
		now := after[from][tx.Nonce()]
		if old != nil && now != nil && old.Hash() != now.Hash() && now.Hash() == tx.Hash() {
			r.col.Inc("probe_replacement_accepted")
			thr := new(big.Int).Mul(old.GasPrice(), new(big.Int).SetUint64(100+r.p.Cfg.PriceBump))
			thr.Div(thr, big.NewInt(100))
			if tx.GasPrice().Cmp(thr) < 0 || tx.GasPrice().Cmp(old.GasPrice()) <= 0 {
				total := 0
				for _, m := range before {
					total += len(m)
				}
				class := "replacement-without-price-bump"
				if uint64(total+len(txs)) >= r.p.Cfg.GlobalSlots+r.p.Cfg.GlobalQueue {
					// not the replacement path: the pool was full, the old transaction was
					// evicted as the cheapest non-local one to make room for the new one
					class += "/through-eviction-from-a-full-pool"
				}
				r.add(class, "tx of %x nonce %d priced %v replaced one priced %v; configured bump %d%% requires at least %v", from[:4], tx.Nonce(), tx.GasPrice(), old.GasPrice(), r.p.Cfg.PriceBump, thr)
				return
			}
		}
		if old != nil && old.Hash() != tx.Hash() && now != nil && now.Hash() == old.Hash() {
			r.col.Inc("probe_replacement_refused")
		}
	}
	for i, e := range errs {
		if e != nil {
			r.col.Inc("add_rejected")
		} else {
			r.col.Inc("add_accepted")
		}
		_ = i
	}
}

func (r *poolRun) opInsert(op PoolOp) {
	u := r.u
	before := r.n.HeadID()
	_, _, died, pan := r.n.Insert(op.Blocks)
	if pan != "" || died != "" {
		r.add("import-panic", "InsertChain died=%q panic=%s", died, pan)
		return
	}
	synctest.Wait()
	after := r.n.HeadID()
	r.col.Inc("op_head_changes")
	if before < 0 || after < 0 || after == before || u.IsAncestor(before, after) {
		return
	}
	// a reorganisation: which transactions dropped out of the canonical chain?
	r.col.Inc("probe_reorg")
	if len(r.s.Parked()) > 0 {
		r.pendingReorg, r.hasPendingReorg = [2]int{before, after}, true
		return // judged after the delayed reset (see "reset")
	}
	r.checkReinjection(before, after)
}

func (r *poolRun) checkReinjection(before, after int) {
	u := r.u
	newChain := map[common.Hash]bool{}
	depth := 0
	for id := after; id > 0; id = u.Parent[id] {
		for _, tx := range u.Blocks[id].Transactions() {
			newChain[tx.Hash()] = true
		}
	}
	st, err := r.n.BC.State()
	if err != nil {
		return
	}
	gasLimit := r.n.BC.CurrentBlock().GasLimit()
	pooled := r.pooled()
	roomy := r.p.Cfg.GlobalSlots >= 4096
	for id := before; id > 0 && !u.IsAncestor(id, after); id = u.Parent[id] {
		depth++
		for _, tx := range u.Blocks[id].Transactions() {
			if newChain[tx.Hash()] {
				continue
			}
			from, err := types.Sender(r.signer, tx)
			if err != nil {
				continue
			}
			stillValid := tx.Nonce() >= st.GetNonce(from) && st.GetBalance(from).Cmp(tx.Cost()) >= 0 && tx.Gas() <= gasLimit && tx.GasPrice().Cmp(r.pool.GasPrice()) >= 0
			if !stillValid || !roomy || depth > 64 {
				r.col.Inc("reinjection_not_judged")
				continue
			}
			have := pooled[from][tx.Nonce()]
			if have == nil {
				r.add("dropped-transaction-not-pooled-again", "after the reorganisation from block id %d to id %d transaction %x (sender %x nonce %d) is no longer on the canonical chain, still valid, and not in the pool", before, after, tx.Hash().Bytes()[:4], from[:4], tx.Nonce())
				return
			}
			r.col.Inc("probe_reinjected_tx_checked")
		}
	}
}

// structural invariants hold even while the pool lags behind the chain head.
func (r *poolRun) structural() {
	pend, queue := r.pool.Content()
	// what the pool lists is what it holds: every listed transaction is known to the lookup
	// by hash, and the listed numbers are the counted numbers
	listed := 0
	for _, m := range []map[common.Address]types.Transactions{pend, queue} {
		for a, txs := range m {
			for _, tx := range txs {
				listed++
				if r.pool.Get(tx.Hash()) == nil {
					r.add("listed-transaction-unknown-to-the-pool", "sender %x nonce %d: Content lists transaction %x (price %v) which the pool does not hold any more (Get returns nothing)", a[:4], tx.Nonce(), tx.Hash().Bytes()[:4], tx.GasPrice())
					return
				}
			}
		}
	}
	if np, nq := r.pool.Stats(); np+nq != listed {
		r.add("listed-transactions-differ-from-stats", "Content lists %d transactions, Stats counts %d pending + %d queued", listed, np, nq)
		return
	}
	for a, txs := range pend {
		seen := map[uint64]bool{}
		for _, tx := range txs {
			if seen[tx.Nonce()] {
				r.add("duplicate-nonce-in-pending", "sender %x has two pending transactions with nonce %d", a[:4], tx.Nonce())
				return
			}
			seen[tx.Nonce()] = true
		}
		for _, tx := range queue[a] {
			if seen[tx.Nonce()] {
				r.add("nonce-in-pending-and-queue", "sender %x has nonce %d both pending and queued", a[:4], tx.Nonce())
				return
			}
		}
	}
}

func (r *poolRun) invariants() {
	r.structural()
	if len(r.vs) > 0 {
		return
	}
	st, err := r.n.BC.State()
	if err != nil {
		return
	}
	head := r.n.BC.CurrentBlock()
	pend, queue := r.pool.Content()
	pendingTotal, queuedNonLocal := 0, 0
	maxNonLocalPending := 0
	for a, txs := range pend {
		pendingTotal += len(txs)
		sorted := append(types.Transactions{}, txs...)
		sort.Sort(types.TxByNonce(sorted))
		want := st.GetNonce(a)
		for _, tx := range sorted {
			if tx.Nonce() != want {
				r.add("pending-not-gap-free-from-chain-nonce", "sender %x: chain nonce %d, pending nonces %v", a[:4], st.GetNonce(a), nonces(sorted))
				return
			}
			want++
			if st.GetBalance(a).Cmp(tx.Cost()) < 0 {
				r.add("pending-unaffordable", "sender %x: pending tx nonce %d costs %v, balance %v", a[:4], tx.Nonce(), tx.Cost(), st.GetBalance(a))
				return
			}
			if tx.Gas() > head.GasLimit() {
				r.add("pending-over-block-gas-limit", "sender %x: pending tx nonce %d gas %d, block gas limit %d", a[:4], tx.Nonce(), tx.Gas(), head.GasLimit())
				return
			}
		}
		if got := r.pool.State().GetNonce(a); got != st.GetNonce(a)+uint64(len(txs)) {
			r.add("virtual-nonce-wrong", "sender %x: pool's next nonce %d, chain nonce %d + %d pending", a[:4], got, st.GetNonce(a), len(txs))
			return
		}
		if !r.maybeLocal[a] && len(txs) > maxNonLocalPending {
			maxNonLocalPending = len(txs)
		}
		r.col.Inc("pending_lists_checked")
	}
	for a, txs := range queue {
		if r.maybeLocal[a] {
			continue
		}
		queuedNonLocal += len(txs)
		// the limits hold at every rest point (also right after an eviction from a full pool
		// or a price-threshold change demoted pending transactions into a queue)
		if uint64(len(txs)) > r.p.Cfg.AccountQueue {
			class := "account-queue-limit-exceeded"
			r.add(class, "non-local sender %x has %d queued transactions, limit %d", a[:4], len(txs), r.p.Cfg.AccountQueue)
			return
		}
	}
	if uint64(queuedNonLocal) > r.p.Cfg.GlobalQueue {
		r.add("global-queue-limit-exceeded", "%d queued transactions of non-local senders, limit %d", queuedNonLocal, r.p.Cfg.GlobalQueue)
		return
	}
	if uint64(pendingTotal) > r.p.Cfg.GlobalSlots && uint64(maxNonLocalPending) > r.p.Cfg.AccountSlots {
		r.add("global-slots-limit-exceeded", "%d pending transactions (limit %d) while a non-local sender holds %d (account slots %d)", pendingTotal, r.p.Cfg.GlobalSlots, maxNonLocalPending, r.p.Cfg.AccountSlots)
		return
	}
	if uint64(pendingTotal) >= r.p.Cfg.GlobalSlots || uint64(queuedNonLocal) >= r.p.Cfg.GlobalQueue {
		r.col.Inc("probe_pool_limit_reached")
	}
	r.col.Inc("rest_points_checked")
}

func nonces(txs types.Transactions) []uint64 {
	var o []uint64
	for _, t := range txs {
		o = append(o, t.Nonce())
	}
	return o
}

func ShrinkPoolPlan(pa any) []any {
	p := pa.(*PoolPlan)
	var out []any
	clone := func() *PoolPlan {
		b, _ := json.Marshal(p)
		q := &PoolPlan{}
		json.Unmarshal(b, q)
		return q
	}
	for size := len(p.Ops) / 2; size >= 1; size /= 2 {
		for at := len(p.Ops) - size; at >= 0; at -= size {
			q := clone()
			q.Ops = append(append([]PoolOp{}, p.Ops[:at]...), p.Ops[at+size:]...)
			out = append(out, q)
		}
	}
	for i := range p.Ops {
		if len(p.Ops[i].Txs) > 1 {
			for j := range p.Ops[i].Txs {
				q := clone()
				q.Ops[i].Txs = append(append([]PoolTx{}, p.Ops[i].Txs[:j]...), p.Ops[i].Txs[j+1:]...)
				out = append(out, q)
			}
		}
	}
	return out
}
