package schedsim

import (
	"bytes"
	"encoding/json"
	"fmt"
	"math/big"
	mrand "math/rand"
	"os"
	"runtime"
	"sort"
	"strings"
	"testing"
	"testing/synctest"

	"gitlab.com/aquachain/aquachain/common"
	"gitlab.com/aquachain/aquachain/consensus/aquahash"
	"gitlab.com/aquachain/aquachain/core/types"
	"gitlab.com/aquachain/aquachain/params"
	"verifsim/kernel"
	"verifsim/refmodel"
)

// ---- C14: the sealer's threads, stop and thread-count updates under the gate scheduler;
//      sealed headers through a corrupting transport to the verifier ------------------------

// SealStep is one scheduler decision.
type SealStep struct {
	Kind string `json:"k"` // miner (release one nonce attempt of live miner Arg%n) | stop | threads (SetThreads(Arg)) | seal (start the next Seal call)
	Arg  int    `json:"a,omitempty"`
}

// SealDamage is one alteration of a sealed header in flight.
type SealDamage struct {
	Field string `json:"f"` // nonce | mix | difficulty | number | extra | time | coinbase | gaslimit | parent
	Arg   int64  `json:"a"`
}

type SealPlan struct {
	Net        string         `json:"net"`             // custom | aqua | testnet | testnet2 | testnet3
	Forks      map[int]uint64 `json:"forks,omitempty"` // custom schedule (HF5, HF8, HF9 heights)
	Number     uint64         `json:"number"`
	Difficulty int64          `json:"difficulty"`
	Threads    int            `json:"threads"`
	HeaderSalt uint64         `json:"salt"`
	ExtraLen   int            `json:"extra_len"`
	Seals      int            `json:"seals"` // consecutive Seal calls on consecutive heights
	Steps      []SealStep     `json:"steps"`
	Damage     []SealDamage   `json:"damage"`
	RandomSeal int            `json:"random_seals"` // unsealed headers with seeded nonces judged by both verifiers
	// Heights, when set, are the heights of the consecutive Seal calls (net
	// "ethash": version-1 heights in epochs 0..2, test-mode DAG sizes).
	Heights []uint64 `json:"heights,omitempty"`
	// DirtyTemplate: the block handed to Seal carries a stale nonce and mix
	// digest (a re-used template).
	DirtyTemplate bool `json:"dirty_template,omitempty"`
}

func DecodeSealPlan(raw json.RawMessage) (any, error) {
	p := &SealPlan{}
	return p, json.Unmarshal(raw, p)
}
func HashSealPlan(p any) uint64 { b, _ := json.Marshal(p); return kernel.HashBytes(b) }

// the built-in schedules, as literals (HF5 / HF8 / HF9 heights)
var sealNetForks = map[string]map[int]uint64{
	"ethash":   {5: 1 << 40},
	"aqua":     {5: 22800},
	"testnet":  {5: 5, 8: 650},
	"testnet2": {5: 0, 8: 8, 9: 19},
	"testnet3": {5: 0},
}

func builtinCfg(net string) *params.ChainConfig {
	switch net {
	case "aqua":
		return params.MainnetChainConfig
	case "testnet":
		return params.TestnetChainConfig
	case "testnet2":
		return params.Testnet2ChainConfig
	case "testnet3":
		return params.Testnet3ChainConfig
	case "ethash":
		return cfgFor(sealNetForks["ethash"], 7715)
	}
	return nil
}

func GenSealPlan(rng *kernel.RNG, env *kernel.Env, k int) any {
	p := &SealPlan{HeaderSalt: rng.Uint64(), ExtraLen: rng.Intn(33), Seals: 1 + rng.Intn(3)}
	nets := []string{"custom", "custom", "custom", "aqua", "testnet", "testnet2", "testnet3", "ethash"}
	p.Net = nets[rng.Intn(len(nets))]
	p.DirtyTemplate = rng.Intn(3) == 0
	var forks map[int]uint64
	if p.Net == "custom" {
		a := uint64(rng.Intn(6))
		b := a + 1 + uint64(rng.Intn(5))
		c := b + 1 + uint64(rng.Intn(5))
		forks = map[int]uint64{5: a}
		if rng.Intn(4) > 0 {
			forks[8] = b
			if rng.Intn(3) > 0 {
				forks[9] = c
			}
		}
		p.Forks = forks
	} else {
		forks = sealNetForks[p.Net]
	}
	if p.Net == "ethash" {
		// version 1 everywhere; heights inside DAG epoch 0 (on the unchanged tree
		// test-mode datasets of later epochs do not verify, and no built-in
		// network stays on version 1 beyond height 22800)
		spots := []uint64{1, 2, 17, 1000, 22799, 29990, 29998}
		p.Seals = 2 + rng.Intn(3)
		for i := 0; i < p.Seals; i++ {
			p.Heights = append(p.Heights, spots[rng.Intn(len(spots))])
		}
		p.Number = p.Heights[0]
		hs := []uint64{0}
		_ = hs
	}
	// a height at or just after a version-changing fork (never a version-1 height)
	var hs []uint64
	for _, hf := range []int{5, 8, 9} {
		if h, ok := forks[hf]; ok {
			hs = append(hs, h)
		}
	}
	if p.Net != "ethash" {
		base := hs[rng.Intn(len(hs))]
		p.Number = base + uint64(rng.Intn(3))
		if rng.Intn(3) == 0 && base > forks[5] {
			p.Number = base - 1 // last height of the previous version
		}
		if p.Number == 0 {
			p.Number = 1
		}
	}
	switch rng.Intn(5) {
	case 0:
		p.Difficulty = 1
	case 1:
		p.Difficulty = int64(2 + rng.Intn(6))
	default:
		p.Difficulty = int64(2 + rng.Intn(40))
	}
	p.Threads = []int{1, 1, 2, 2, 3, 4, 8, 0, -1}[rng.Intn(9)]
	if env.Thorough() && rng.Intn(4) == 0 {
		p.Difficulty = int64(40 + rng.Intn(400))
	}
	// schedule
	n := 4 + rng.Intn(40)
	p.Steps = append(p.Steps, SealStep{Kind: "seal"})
	sealsStarted := 1
	for i := 0; i < n; i++ {
		switch r := rng.Intn(20); {
		case r == 0:
			p.Steps = append(p.Steps, SealStep{Kind: "stop"})
		case r == 1 || r == 2:
			p.Steps = append(p.Steps, SealStep{Kind: "threads", Arg: []int{1, 2, 3, 5, 0, -1}[rng.Intn(6)]})
		case r == 3 && sealsStarted < p.Seals:
			p.Steps = append(p.Steps, SealStep{Kind: "seal"})
			sealsStarted++
		default:
			p.Steps = append(p.Steps, SealStep{Kind: "miner", Arg: rng.Intn(64)})
		}
	}
	// damage in flight
	fields := []string{"nonce", "nonce", "mix", "difficulty", "difficulty", "number", "number", "extra", "time", "coinbase", "gaslimit", "parent"}
	for i := 0; i < 6+rng.Intn(10); i++ {
		f := fields[rng.Intn(len(fields))]
		d := SealDamage{Field: f}
		switch f {
		case "nonce":
			d.Arg = []int64{1, -1, 2, 1 << 32, int64(rng.Uint64() >> 1)}[rng.Intn(5)]
		case "mix":
			d.Arg = int64(rng.Intn(256))
		case "difficulty":
			d.Arg = []int64{0, -1, -p.Difficulty, 1, p.Difficulty, p.Difficulty * 7, 1 << 40, -(1 << 40)}[rng.Intn(8)]
		case "number":
			d.Arg = []int64{1, -1, 2, -2, 5, -5, 11, 650, 22800}[rng.Intn(9)]
			if p.Net == "ethash" {
				d.Arg = []int64{1, -1, 2, -2, 7, 30000}[rng.Intn(6)]
			}
		default:
			d.Arg = int64(1 + rng.Intn(200))
		}
		p.Damage = append(p.Damage, d)
	}
	p.RandomSeal = 10 + rng.Intn(30)
	return p
}

type sealRun struct {
	p     *SealPlan
	col   *kernel.Collector
	vs    []kernel.Violation
	cfg   *params.ChainConfig
	forks refmodel.Forks
	step  int
}

func (r *sealRun) add(class string, f string, a ...any) {
	for _, v := range r.vs {
		if v.Class == class {
			return
		}
	}
	r.vs = append(r.vs, kernel.Violation{Class: class, Step: r.step, Detail: fmt.Sprintf(f, a...)})
}

func toRef(h *types.Header) *refmodel.SealHdr {
	return &refmodel.SealHdr{ParentHash: h.ParentHash[:], UncleHash: h.UncleHash[:], Root: h.Root[:], TxHash: h.TxHash[:], ReceiptHash: h.ReceiptHash[:],
		Coinbase: h.Coinbase[:], Bloom: h.Bloom[:], Difficulty: h.Difficulty, Number: h.Number, Time: h.Time, GasLimit: h.GasLimit, GasUsed: h.GasUsed,
		Extra: h.Extra, MixDigest: h.MixDigest[:], Nonce: h.Nonce.Uint64()}
}

func (r *sealRun) mkBlock(number uint64, salt uint64) *types.Block {
	rng := kernel.NewRNG(salt ^ number*0x9e3779b97f4a7c15)
	h := &types.Header{Number: new(big.Int).SetUint64(number), Difficulty: big.NewInt(r.p.Difficulty), Time: big.NewInt(1_600_000_000 + int64(number)*240),
		GasLimit: 4_700_000 + uint64(rng.Intn(1000)), GasUsed: uint64(rng.Intn(1000)), Extra: rng.Bytes(r.p.ExtraLen),
		UncleHash: types.EmptyUncleHash, TxHash: types.EmptyRootHash, ReceiptHash: types.EmptyRootHash}
	copy(h.ParentHash[:], rng.Bytes(32))
	copy(h.Root[:], rng.Bytes(32))
	copy(h.Coinbase[:], rng.Bytes(20))
	if r.p.DirtyTemplate {
		copy(h.MixDigest[:], rng.Bytes(32))
		h.Nonce = types.EncodeNonce(rng.Uint64())
	}
	// the miner's worker hands Seal a header whose version is already set from the height
	h.Version = params.HeaderVersion(refmodel.HeaderVersion(r.forks, number))
	return types.NewBlock(h, nil, nil, nil)
}

// engineVerdict runs the real VerifySeal on a copy of h whose version the node
// derives from the height, guarding against panics.
func (r *sealRun) engineVerdict(e *aquahash.Aquahash, rd *simReader, h *types.Header) (accepted bool, errText string, panicked string) {
	defer func() {
		if rec := recover(); rec != nil {
			panicked = fmt.Sprint(rec)
		}
	}()
	cp := types.CopyHeader(h)
	cp.Version = r.cfg.GetBlockVersion(cp.Number)
	err := e.VerifySeal(rd, cp)
	if err != nil {
		return false, err.Error(), ""
	}
	return true, "", ""
}

func mineFrames() int {
	buf := make([]byte, 1<<20)
	dump := string(buf[:runtime.Stack(buf, true)])
	return strings.Count(dump, "aquahash.(*Aquahash).mine(")
}

func ExecSeal(t *testing.T, pa any, col *kernel.Collector) []kernel.Violation {
	p := pa.(*SealPlan)
	var vs []kernel.Violation
	func() {
		defer func() {
			if rec := recover(); rec != nil {
				s := fmt.Sprint(rec)
				if strings.Contains(s, "deadlock: main bubble goroutine has exited but blocked goroutines remain") {
					return
				}
				panic(rec)
			}
		}()
		synctest.Test(t, func(t *testing.T) { vs = execSeal(p, col) })
	}()
	return vs
}

func execSeal(p *SealPlan, col *kernel.Collector) []kernel.Violation {
	r := &sealRun{p: p, col: col}
	if p.Net == "custom" {
		r.cfg = cfgFor(p.Forks, 7714)
		r.forks = refmodel.Forks(p.Forks)
	} else {
		r.cfg = builtinCfg(p.Net)
		r.forks = refmodel.Forks(sealNetForks[p.Net])
	}
	if r.cfg == nil {
		return []kernel.Violation{{Class: "harness-panic", Detail: "unknown net " + p.Net}}
	}
	mrand.Seed(int64(p.HeaderSalt >> 1))
	// 0. version is a function of height alone, per schedule
	for _, hf := range []int{5, 8, 9} {
		h, ok := r.forks[hf]
		if !ok {
			continue
		}
		for d := int64(-2); d <= 2; d++ {
			n := int64(h) + d
			if n < 0 {
				continue
			}
			want := refmodel.HeaderVersion(r.forks, uint64(n))
			if got := int(r.cfg.GetBlockVersion(big.NewInt(n))); got != want {
				r.add("version-not-from-fork-schedule", "net %s height %d: GetBlockVersion = %d, the fork schedule gives %d", p.Net, n, got, want)
				return r.vs
			}
			col.Inc("version_lookups_checked")
		}
	}
	version := refmodel.HeaderVersion(r.forks, p.Number)
	if version < 2 && p.Net != "ethash" {
		col.Inc("skipped_version1_height")
		return nil
	}
	col.Inc(fmt.Sprintf("probe_seal_version_%d", version))
	rd := &simReader{cfg: r.cfg, byHash: map[common.Hash]*types.Header{}, blocks: map[common.Hash]*types.Block{}}
	e := aquahash.New(&aquahash.Config{PowMode: aquahash.ModeNormal, StartVersion: 2})
	if p.Net == "ethash" {
		e = aquahash.New(ethashTestConfig())
	}
	e.SetThreads(p.Threads)

	s := New()
	defer s.Close()
	site := "aquahash.mine.attempt"
	s.Sites = map[string]bool{site: true}
	s.Adopt = map[string]bool{site: true}

	type sealResult struct {
		in  *types.Block
		out *types.Block
		err error
		pan string
	}
	var results []sealResult
	stop := make(chan struct{})
	stopped := false
	curThreads := p.Threads
	sealsLeft := p.Seals
	nextNumber := p.Number
	var sealer *Actor
	var sealing bool
	sealIdx := 0
	startSeal := func() {
		if sealIdx < len(p.Heights) {
			nextNumber = p.Heights[sealIdx]
		}
		sealIdx++
		b := r.mkBlock(nextNumber, p.HeaderSalt+uint64(sealIdx))
		nextNumber++
		sealing = true
		if stopped {
			stop, stopped = make(chan struct{}), false
		}
		st := stop
		sealer = s.Spawn("sealer", func(a *Actor) {
			res := sealResult{in: b}
			func() {
				defer func() {
					if rec := recover(); rec != nil {
						res.pan = fmt.Sprint(rec)
					}
				}()
				res.out, res.err = e.Seal(rd, b, st)
			}()
			results = append(results, res)
		})
		s.Settle()
		s.Release(sealer)
	}
	liveMiners := func() []*Actor {
		var ms []*Actor
		for _, a := range s.Parked() {
			if a.Adopted {
				ms = append(ms, a)
			}
		}
		sort.SliceStable(ms, func(i, j int) bool {
			x, _ := ms[i].Arg.(int)
			y, _ := ms[j].Arg.(int)
			return x < y
		})
		return ms
	}
	expectMiners := func(th int) int {
		switch {
		case th == 0:
			return runtime.NumCPU()
		case th < 0:
			return 0
		}
		return th
	}
	judgeDone := func() {
		// the Seal call finished: judge what it returned
		if !sealing || !sealer.Done() {
			return
		}
		sealing = false
		res := results[len(results)-1]
		r.judgeSeal(e, rd, res.in, res.out, res.err, res.pan, stopped)
	}
	attempts := 0
	for i, st := range p.Steps {
		r.step = i
		col.Tick()
		if len(r.vs) > 0 {
			break
		}
		switch st.Kind {
		case "seal":
			if sealing || sealsLeft == 0 {
				continue
			}
			sealsLeft--
			startSeal()
			judgeDone()
			if sealing && !stopped {
				if got, want := len(liveMiners()), expectMiners(curThreads); got != want {
					r.add("wrong-number-of-search-threads", "Seal with SetThreads(%d) runs %d search threads, want %d", curThreads, got, want)
				}
				col.Inc(fmt.Sprintf("probe_threads_%d", expectMiners(curThreads)))
			}
		case "miner":
			ms := liveMiners()
			if len(ms) == 0 {
				continue
			}
			attempts++
			s.Release(ms[st.Arg%len(ms)])
			col.Inc("nonce_attempts_released")
			judgeDone()
		case "stop":
			if !sealing || stopped {
				continue
			}
			close(stop)
			stopped = true
			synctest.Wait()
			col.Inc("fault_stop_during_seal")
			// every live thread needs at most one release to observe the abort
			for _, m := range liveMiners() {
				s.Release(m)
			}
			judgeDone()
			if sealing {
				r.add("seal-does-not-return-after-stop", "stop closed and every search thread released once, Seal has not returned (live threads %d)", len(liveMiners()))
			}
		case "threads":
			e.SetThreads(st.Arg)
			curThreads = st.Arg
			synctest.Wait()
			if !sealing {
				continue
			}
			col.Inc("fault_setthreads_during_seal")
			// the old generation exits when released; the restarted Seal must
			// then run exactly the new number of threads
			old := liveMiners()
			for _, m := range old {
				s.Release(m)
			}
			judgeDone()
			if sealing {
				// threads released above may have re-parked (the update was not yet seen): drain twice more
				for k := 0; k < 2 && sealing; k++ {
					if got, want := len(liveMiners()), expectMiners(curThreads); got == want {
						break
					}
					for _, m := range liveMiners() {
						s.Release(m)
					}
					judgeDone()
				}
			}
			if sealing {
				if got, want := len(liveMiners()), expectMiners(curThreads); got != want {
					r.add("wrong-number-of-search-threads/after-setthreads", "after SetThreads(%d) during Seal %d search threads are live, want %d", curThreads, got, want)
				}
			}
		}
	}
	// drain: a running Seal must find a nonce within a generous bound
	if len(r.vs) == 0 && sealing && !stopped && expectMiners(curThreads) > 0 {
		bound := int(p.Difficulty)*400 + 400
		for k := 0; k < bound && sealing; k++ {
			ms := liveMiners()
			if len(ms) == 0 {
				break
			}
			s.Release(ms[k%len(ms)])
			col.Inc("nonce_attempts_released")
			judgeDone()
		}
		if sealing {
			r.add("seal-does-not-terminate", "no seal after %d further nonce attempts at difficulty %d (live threads %d)", bound, p.Difficulty, len(liveMiners()))
		}
	}
	// teardown: stop whatever is still running
	if sealing {
		if !stopped {
			close(stop)
			stopped = true
			synctest.Wait()
		}
		for k := 0; k < 3 && sealing; k++ {
			for _, m := range liveMiners() {
				s.Release(m)
			}
			judgeDone()
		}
		if sealing && len(r.vs) == 0 {
			r.add("seal-does-not-return-after-stop", "at teardown: stop closed, threads released three times, Seal has not returned")
		}
	}
	s.DisableSites()
	for _, m := range liveMiners() {
		m.gate <- struct{}{}
	}
	synctest.Wait()
	if len(r.vs) == 0 {
		if n := mineFrames(); n != 0 {
			r.add("search-threads-leaked", "%d search threads still exist after every Seal call returned", n)
		}
	}
	// transport damage on the sealed headers
	if len(r.vs) == 0 {
		for _, res := range results {
			if res.out != nil {
				r.damage(e, rd, res.out.Header())
			}
		}
	}
	// unsealed headers with seeded nonces
	if len(r.vs) == 0 {
		rng := kernel.NewRNG(p.HeaderSalt ^ 0xc14)
		for i := 0; i < p.RandomSeal; i++ {
			b := r.mkBlock(p.Number+uint64(rng.Intn(3)), rng.Uint64())
			h := b.Header()
			h.Difficulty = big.NewInt(int64(1 + rng.Intn(6)))
			h.Nonce = types.EncodeNonce(rng.Uint64())
			r.compare(e, rd, h, "seeded nonce")
		}
	}
	kernel.SetNonTrivial()
	return r.vs
}

// judgeSeal: what Seal returned for block in.
func (r *sealRun) judgeSeal(e *aquahash.Aquahash, rd *simReader, in, out *types.Block, err error, pan string, stopped bool) {
	col := r.col
	if pan != "" {
		r.add("seal-panics", "Seal panicked: %s", pan)
		return
	}
	if err != nil {
		r.add("seal-error", "Seal returned error %v", err)
		return
	}
	if out == nil {
		if !stopped {
			r.add("seal-returns-nothing-without-stop", "Seal returned (nil, nil) although stop was never closed")
		}
		col.Inc("seals_stopped")
		return
	}
	col.Inc("seals_returned")
	version := refmodel.HeaderVersion(r.forks, in.NumberU64())
	h := out.Header()
	if int(h.Version) != version {
		r.add("sealed-header-has-wrong-version", "block #%d sealed with header version %d, the fork schedule gives %d", in.NumberU64(), h.Version, version)
		return
	}
	ih := in.Header()
	ih.Nonce, ih.MixDigest = h.Nonce, h.MixDigest
	if !bytes.Equal(refmodel.SealFreeHash(version, toRef(ih)), refmodel.SealFreeHash(version, toRef(h))) || out.NumberU64() != in.NumberU64() {
		r.add("sealed-block-is-not-the-block-given", "Seal(#%d) returned a block whose seal-free content differs from the one it was given (#%d)", in.NumberU64(), out.NumberU64())
		return
	}
	if ok, why := r.refVerdict(rd, version, h); !ok {
		r.add("miner-returns-invalid-seal", "Seal returned nonce %d for #%d difficulty %v (version %d, %d threads): reference verifier rejects it (%s)", h.Nonce.Uint64(), h.Number, h.Difficulty, version, r.p.Threads, why)
		return
	}
	if acc, errText, pan := r.engineVerdict(e, rd, h); !acc {
		r.add("miner-seal-fails-own-verification", "VerifySeal rejects the block Seal returned (#%d nonce %d): %s %s", h.Number, h.Nonce.Uint64(), errText, pan)
		return
	}
	want := refmodel.HeaderHash(version, toRef(h))
	if got := out.Hash(); !bytes.Equal(got[:], want) {
		r.add("block-hash-not-by-version", "sealed block #%d (version %d): Hash() = %x, the version's hash of the header is %x", h.Number, version, got[:6], want[:6])
		return
	}
	if got := h.HashNoNonce(); !bytes.Equal(got[:], refmodel.SealFreeHash(version, toRef(h))) {
		r.add("seal-free-hash-differs", "header #%d version %d: HashNoNonce differs from the reference", h.Number, version)
	}
}

// ethashTestConfig: test-mode sizes; datasets go to a scratch directory (with an
// empty directory name the engine would write them into the working directory).
func ethashTestConfig() *aquahash.Config {
	return &aquahash.Config{CachesInMem: 1, DatasetsInMem: 1, DatasetsOnDisk: 1, DatasetDir: ethashDir(), PowMode: aquahash.ModeTest}
}

var ethashScratch string

func ethashDir() string {
	if ethashScratch == "" {
		// inside the driver's scratch directory (removed when the check ends)
		base := os.Getenv("VERIF_OUT")
		if base != "" {
			os.MkdirAll(base, 0o755)
		}
		ethashScratch, _ = os.MkdirTemp(base, "c14-ethash-")
	}
	return ethashScratch
}

// refVerdict: the independent verifier for versions 2..4; for version 1
// (ethash, test-mode sizes) a freshly created engine that has never seen
// another epoch — the long-lived engine's caches must not change a verdict.
func (r *sealRun) refVerdict(rd *simReader, version int, h *types.Header) (bool, string) {
	if version >= 2 {
		return refmodel.SealVerdict(version, toRef(h))
	}
	fresh := aquahash.New(ethashTestConfig())
	cp := types.CopyHeader(h)
	cp.Version = 1
	r.col.Inc("ethash_fresh_engine_verdicts")
	if err := fresh.VerifySeal(rd, cp); err != nil {
		return false, strings.ReplaceAll(err.Error(), " ", "-")
	}
	return true, ""
}

// compare: engine verdict == reference verdict for header h.
func (r *sealRun) compare(e *aquahash.Aquahash, rd *simReader, h *types.Header, what string) {
	r.col.Tick()
	version := refmodel.HeaderVersion(r.forks, h.Number.Uint64())
	if h.Number.Sign() < 0 {
		return
	}
	if version < 2 && r.p.Net != "ethash" {
		r.col.Inc("damage_moved_to_version1_height_skipped")
		return
	}
	want, why := r.refVerdict(rd, version, h)
	acc, errText, pan := r.engineVerdict(e, rd, h)
	r.col.Inc("verdicts_compared")
	if want {
		r.col.Inc("verdicts_accept")
	} else {
		r.col.Inc("verdicts_reject")
	}
	switch {
	case pan != "":
		r.add("verifyseal-panics", "%s: VerifySeal panicked on header #%d difficulty %v: %s", what, h.Number, h.Difficulty, pan)
	case acc && !want:
		r.add("invalid-seal-accepted/"+strings.ReplaceAll(why, " ", "-"), "%s: VerifySeal accepts header #%d (version %d, difficulty %v, nonce %d) that the reference rejects: %s", what, h.Number, version, h.Difficulty, h.Nonce.Uint64(), why)
	case !acc && want:
		r.add("valid-seal-rejected", "%s: VerifySeal rejects (%s) header #%d (version %d, difficulty %v, nonce %d) that meets its target", what, errText, h.Number, version, h.Difficulty, h.Nonce.Uint64())
	}
}

func (r *sealRun) damage(e *aquahash.Aquahash, rd *simReader, sealed *types.Header) {
	r.compare(e, rd, sealed, "undamaged")
	for _, d := range r.p.Damage {
		h := types.CopyHeader(sealed)
		switch d.Field {
		case "nonce":
			h.Nonce = types.EncodeNonce(h.Nonce.Uint64() + uint64(d.Arg))
		case "mix":
			h.MixDigest[int(d.Arg)%32] ^= 1 << (uint(d.Arg) % 8)
		case "difficulty":
			h.Difficulty = new(big.Int).Add(h.Difficulty, big.NewInt(d.Arg))
		case "number":
			h.Number = new(big.Int).Add(h.Number, big.NewInt(d.Arg))
			if h.Number.Sign() < 0 {
				continue
			}
		case "extra":
			h.Extra = append(append([]byte{}, h.Extra...), byte(d.Arg))
		case "time":
			h.Time = new(big.Int).Add(h.Time, big.NewInt(d.Arg))
		case "coinbase":
			h.Coinbase[int(d.Arg)%20] ^= 0x80
		case "gaslimit":
			h.GasLimit += uint64(d.Arg)
		case "parent":
			h.ParentHash[int(d.Arg)%32] ^= 1
		}
		r.col.Inc("fault_transport_" + d.Field)
		if d.Field == "number" && refmodel.HeaderVersion(r.forks, h.Number.Uint64()) != refmodel.HeaderVersion(r.forks, sealed.Number.Uint64()) {
			r.col.Inc("probe_damage_crosses_version_fork")
		}
		r.compare(e, rd, h, fmt.Sprintf("%s %+d in flight", d.Field, d.Arg))
		if len(r.vs) > 0 {
			return
		}
	}
}

func ShrinkSealPlan(pa any) []any {
	p := pa.(*SealPlan)
	var out []any
	cp := func() *SealPlan {
		q := *p
		q.Steps = append([]SealStep(nil), p.Steps...)
		q.Damage = append([]SealDamage(nil), p.Damage...)
		return &q
	}
	if p.RandomSeal > 0 {
		q := cp()
		q.RandomSeal = 0
		out = append(out, q)
	}
	if len(p.Damage) > 0 {
		q := cp()
		q.Damage = nil
		out = append(out, q)
		for i := range p.Damage {
			q := cp()
			q.Damage = append(q.Damage[:i], q.Damage[i+1:]...)
			out = append(out, q)
		}
	}
	if len(p.Steps) > 1 {
		q := cp()
		q.Steps = q.Steps[:len(q.Steps)/2]
		out = append(out, q)
		for i := len(p.Steps) - 1; i >= 1; i-- {
			q := cp()
			q.Steps = append(q.Steps[:i], q.Steps[i+1:]...)
			out = append(out, q)
		}
	}
	if p.Seals > 1 {
		q := cp()
		q.Seals = 1
		out = append(out, q)
	}
	if p.Threads != 1 {
		q := cp()
		q.Threads = 1
		out = append(out, q)
	}
	if p.Difficulty > 2 {
		q := cp()
		q.Difficulty = 2
		out = append(out, q)
	}
	return out
}
