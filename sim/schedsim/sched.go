// Package schedsim is the gate scheduler: real goroutines ("actors") that run
// real code but park on a channel they own before every call and at every
// enabled yield point; the simulator releases exactly one at a time and waits
// for quiescence (synctest.Wait) before choosing the next from the plan.
package schedsim

import (
	"bytes"
	"runtime"
	"strconv"
	"sync"
	"testing/synctest"

	"gitlab.com/aquachain/aquachain/common/verifhook"
)

// Actor is one simulated party.
type Actor struct {
	ID     int
	Name   string
	gate   chan struct{}
	parked bool
	site   string
	done   bool
	sched  *Sched
	// Busy is set by the actor while it is inside a call that holds a sync mutex
	// other actors may need (see Sched.Blockers).
	Group   string
	Adopted bool        // a goroutine of the system under test parked at an adoption site
	Arg     interface{} // the argument the adoption site passed (e.g. a worker id)
}

// Sched owns the actors of one run.
type Sched struct {
	mu      sync.Mutex
	actors  []*Actor
	byGID   map[uint64]*Actor
	Step    int
	Sites   map[string]bool // enabled yield sites (nil = all)
	Adopt   map[string]bool // sites at which goroutines not spawned by the scheduler are adopted as actors
	Trace   []int           // actor id released at each step
	SiteHit map[string]int
}

var (
	curMu sync.Mutex
	cur   *Sched
)

func init() {
	verifhook.Yield = func(site string, arg interface{}) {
		curMu.Lock()
		s := cur
		curMu.Unlock()
		if s == nil {
			return
		}
		s.mu.Lock()
		gid := curGID()
		a := s.byGID[gid]
		enabled := s.Sites == nil || s.Sites[site]
		if a == nil && enabled && s.Adopt[site] {
			a = &Actor{ID: len(s.actors), Name: "adopted:" + site, gate: make(chan struct{}), sched: s, Adopted: true, Arg: arg}
			s.actors = append(s.actors, a)
			s.byGID[gid] = a
		}
		if a != nil && enabled {
			s.SiteHit[site]++
		}
		s.mu.Unlock()
		if a != nil && enabled {
			a.Park(site)
		}
	}
}

func curGID() uint64 {
	var buf [64]byte
	b := buf[:runtime.Stack(buf[:], false)]
	b = bytes.TrimPrefix(b, []byte("goroutine "))
	if i := bytes.IndexByte(b, ' '); i > 0 {
		n, _ := strconv.ParseUint(string(b[:i]), 10, 64)
		return n
	}
	return 0
}

// New creates a scheduler and makes it the process-wide current one (must be
// called inside the bubble; Close it at the end of the run).
func New() *Sched {
	s := &Sched{byGID: map[uint64]*Actor{}, SiteHit: map[string]int{}}
	curMu.Lock()
	cur = s
	curMu.Unlock()
	return s
}

func (s *Sched) Close() {
	curMu.Lock()
	if cur == s {
		cur = nil
	}
	curMu.Unlock()
}

// Spawn starts an actor; it parks at "start" before running anything.
func (s *Sched) Spawn(name string, run func(a *Actor)) *Actor {
	a := &Actor{ID: len(s.actors), Name: name, gate: make(chan struct{}), sched: s}
	s.mu.Lock()
	s.actors = append(s.actors, a)
	s.mu.Unlock()
	go func() {
		s.mu.Lock()
		s.byGID[curGID()] = a
		s.mu.Unlock()
		a.Park("start")
		run(a)
		s.mu.Lock()
		a.done = true
		s.mu.Unlock()
	}()
	return a
}

// Park blocks the calling actor until the scheduler releases it.
func (a *Actor) Park(site string) {
	a.sched.mu.Lock()
	a.parked, a.site = true, site
	a.sched.mu.Unlock()
	<-a.gate
}

// Parked lists the actors currently waiting at a gate, by id.
func (s *Sched) Parked() []*Actor {
	s.mu.Lock()
	defer s.mu.Unlock()
	var out []*Actor
	for _, a := range s.actors {
		if a.parked && !a.done {
			out = append(out, a)
		}
	}
	return out
}

// InFlight lists actors that were released and are now blocked inside real code.
func (s *Sched) InFlight() []*Actor {
	s.mu.Lock()
	defer s.mu.Unlock()
	var out []*Actor
	for _, a := range s.actors {
		if !a.parked && !a.done {
			out = append(out, a)
		}
	}
	return out
}

func (s *Sched) AllDone() bool {
	s.mu.Lock()
	defer s.mu.Unlock()
	for _, a := range s.actors {
		if !a.done && !a.Adopted {
			return false
		}
	}
	return true
}

func (a *Actor) Done() bool   { a.sched.mu.Lock(); defer a.sched.mu.Unlock(); return a.done }
func (a *Actor) Site() string { a.sched.mu.Lock(); defer a.sched.mu.Unlock(); return a.site }

// Release lets exactly one parked actor run until everything is quiescent again.
func (s *Sched) Release(a *Actor) {
	s.mu.Lock()
	a.parked = false
	s.Step++
	s.Trace = append(s.Trace, a.ID)
	s.mu.Unlock()
	a.gate <- struct{}{}
	synctest.Wait()
}

// Unpark lets a parked actor continue without waiting for quiescence. It is for the
// moment the system under test is about to hold a sync lock that the bubble cannot
// wait out (a mutex-blocked goroutine is not durably blocked): whoever the lock holder
// waits for must then run without the scheduler's help.
func (s *Sched) Unpark(a *Actor) {
	s.mu.Lock()
	if !a.parked || a.done {
		s.mu.Unlock()
		return
	}
	a.parked = false
	s.mu.Unlock()
	a.gate <- struct{}{}
}

// Settle waits for quiescence (after spawning actors).
func (s *Sched) Settle() { synctest.Wait() }

// StepNow returns the current step number (events are stamped with it).
func (s *Sched) StepNow() int { s.mu.Lock(); defer s.mu.Unlock(); return s.Step }

// WhoAmI returns the actor of the calling goroutine (nil for non-actors).
func (s *Sched) WhoAmI() *Actor { s.mu.Lock(); defer s.mu.Unlock(); return s.byGID[curGID()] }

// DisableSites turns every yield site off (teardown).
func (s *Sched) DisableSites() { s.mu.Lock(); s.Sites = map[string]bool{}; s.mu.Unlock() }
