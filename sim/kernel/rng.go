// Package kernel holds the parts of the simulator every engine shares: the one
// PRNG all choices derive from, the run loop (generate plan -> execute -> check
// -> shrink -> replay file), evidence collection and the known-findings filter.
package kernel

import (
	"encoding/binary"
	"hash/fnv"
)

// RNG is xoshiro256** seeded through splitmix64. It is implemented here (not
// math/rand) so that a seed means the same execution on every toolchain.
type RNG struct{ s [4]uint64 }

func splitmix(x *uint64) uint64 {
	*x += 0x9e3779b97f4a7c15
	z := *x
	z = (z ^ (z >> 30)) * 0xbf58476d1ce4e5b9
	z = (z ^ (z >> 27)) * 0x94d049bb133111eb
	return z ^ (z >> 31)
}

func NewRNG(seed uint64) *RNG {
	r := &RNG{}
	x := seed
	for i := range r.s {
		r.s[i] = splitmix(&x)
	}
	return r
}

func rotl(x uint64, k uint) uint64 { return (x << k) | (x >> (64 - k)) }

func (r *RNG) Uint64() uint64 {
	s := &r.s
	res := rotl(s[1]*5, 7) * 9
	t := s[1] << 17
	s[2] ^= s[0]
	s[3] ^= s[1]
	s[1] ^= s[2]
	s[0] ^= s[3]
	s[2] ^= t
	s[3] = rotl(s[3], 45)
	return res
}

// Intn returns a value in [0,n). n<=0 yields 0.
func (r *RNG) Intn(n int) int {
	if n <= 1 {
		return 0
	}
	return int(r.Uint64() % uint64(n))
}

// Range returns a value in [lo,hi].
func (r *RNG) Range(lo, hi int) int {
	if hi <= lo {
		return lo
	}
	return lo + r.Intn(hi-lo+1)
}

func (r *RNG) Float64() float64 { return float64(r.Uint64()>>11) / (1 << 53) }

func (r *RNG) Bool(p float64) bool { return r.Float64() < p }

func (r *RNG) Bytes(n int) []byte {
	b := make([]byte, n)
	for i := 0; i < n; i += 8 {
		var w [8]byte
		binary.LittleEndian.PutUint64(w[:], r.Uint64())
		copy(b[i:], w[:])
	}
	return b
}

// Read makes RNG an io.Reader (used to pin crypto/rand.Reader).
func (r *RNG) Read(p []byte) (int, error) {
	copy(p, r.Bytes(len(p)))
	return len(p), nil
}

// Pick returns a random index weighted by w.
func (r *RNG) Pick(w []int) int {
	tot := 0
	for _, x := range w {
		tot += x
	}
	if tot <= 0 {
		return 0
	}
	v := r.Intn(tot)
	for i, x := range w {
		if v < x {
			return i
		}
		v -= x
	}
	return len(w) - 1
}

// Perm returns a random permutation of [0,n).
func (r *RNG) Perm(n int) []int {
	p := make([]int, n)
	for i := range p {
		p[i] = i
	}
	for i := n - 1; i > 0; i-- {
		j := r.Intn(i + 1)
		p[i], p[j] = p[j], p[i]
	}
	return p
}

// Fork derives an independent stream.
func (r *RNG) Fork() *RNG { return NewRNG(r.Uint64()) }

// Mix hashes integers into one seed.
func Mix(a ...uint64) uint64 {
	x := uint64(0x243f6a8885a308d3)
	for _, v := range a {
		x ^= v
		x = splitmix(&x)
	}
	return x
}

// HashBytes is FNV-1a 64.
func HashBytes(parts ...[]byte) uint64 {
	h := fnv.New64a()
	for _, p := range parts {
		h.Write(p)
		h.Write([]byte{0xff})
	}
	return h.Sum64()
}

func HashString(s string) uint64 { return HashBytes([]byte(s)) }
