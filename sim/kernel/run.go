package kernel

import (
	"encoding/json"
	"fmt"
	"os"
	"path/filepath"
	"runtime"
	"runtime/debug"
	"sort"
	"strconv"
	"strings"
	"sync"
	"sync/atomic"
	"testing"
	"time"
)

// Violation is one failed oracle. Class is a stable signature (it names the
// oracle and the specific site/history class) used for shrinking ("same
// violation class persists"), for replay comparison and for the known-findings
// filter.
type Violation struct {
	Class  string `json:"class"`
	Detail string `json:"detail"`
	Step   int    `json:"step"`
}

func (v Violation) String() string {
	return fmt.Sprintf("%s at step %d: %s", v.Class, v.Step, v.Detail)
}

// Env is what the driver passes to a worker process.
type Env struct {
	Seed    uint64
	Tier    string
	Worker  int
	Workers int
	OutDir  string  // partial evidence goes here
	BudgetS float64 // wall-clock budget of this worker
	MaxRuns int     // 0 = unlimited within budget
	Replay  string  // replay file to execute instead of searching
	Verif   string  // /verif
	Knob    map[string]string
}

func getenv(k, d string) string {
	if v := os.Getenv(k); v != "" {
		return v
	}
	return d
}

func LoadEnv() *Env {
	e := &Env{Tier: getenv("VERIF_TIER", "quick"), Workers: 1, Verif: getenv("VERIF_DIR", "/verif"), Knob: map[string]string{}}
	s := getenv("VERIF_SEED", "1")
	if u, err := strconv.ParseUint(s, 10, 64); err == nil {
		e.Seed = u
	} else if i, err := strconv.ParseInt(s, 10, 64); err == nil {
		e.Seed = uint64(i)
	} else {
		e.Seed = HashString(s)
	}
	if w := os.Getenv("VERIF_WORKER"); w != "" {
		fmt.Sscanf(w, "%d/%d", &e.Worker, &e.Workers)
		if e.Workers < 1 {
			e.Workers = 1
		}
	}
	e.OutDir = os.Getenv("VERIF_OUT")
	e.BudgetS, _ = strconv.ParseFloat(getenv("VERIF_BUDGET_S", "20"), 64)
	e.MaxRuns, _ = strconv.Atoi(getenv("VERIF_MAX_RUNS", "0"))
	e.Replay = os.Getenv("VERIF_REPLAY")
	for _, kv := range strings.Split(os.Getenv("VERIF_KNOBS"), ",") {
		if i := strings.IndexByte(kv, '='); i > 0 {
			e.Knob[kv[:i]] = kv[i+1:]
		}
	}
	return e
}

func (e *Env) Thorough() bool { return e.Tier == "thorough" }

// Collector gathers what a worker measured. Everything in it is counted by the
// machinery at run time.
type Collector struct {
	mu          sync.Mutex
	Runs        int64
	Counters    map[string]int64 // ops, fault kinds fired, reach probes
	Distinct    map[uint64]struct{}
	distinctCap int
	Capped      bool
	Samples     []any
	SimSeconds  float64
	Seeds       []uint64
	Violations  []ViolationRecord
	Known       map[string]int64
	progress    atomic.Int64
}

type ViolationRecord struct {
	Violation
	Seed   uint64 `json:"seed"`
	Replay string `json:"replay"`
}

func NewCollector() *Collector {
	return &Collector{Counters: map[string]int64{}, Distinct: map[uint64]struct{}{}, Known: map[string]int64{}, distinctCap: 150000}
}

func (c *Collector) Add(name string, n int64) {
	c.mu.Lock()
	c.Counters[name] += n
	c.mu.Unlock()
}
func (c *Collector) Inc(name string) { c.Add(name, 1) }

// Tick tells the watchdog the simulation is alive.
func (c *Collector) Tick() { c.progress.Add(1) }

// MarkRun records one finished execution. nontrivial is decided by the check's
// stated rule; hash identifies the case (plan or history) for distinct counting.
func (c *Collector) MarkRun(hash uint64, nontrivial bool) {
	c.mu.Lock()
	defer c.mu.Unlock()
	c.Runs++
	if nontrivial {
		if len(c.Distinct) < c.distinctCap {
			c.Distinct[hash] = struct{}{}
		} else if _, ok := c.Distinct[hash]; !ok {
			c.Capped = true
		}
	}
}

// MarkCase records an additional evaluated case inside a run (e.g. one crash
// image) without counting a run.
func (c *Collector) MarkCase(hash uint64) {
	c.mu.Lock()
	defer c.mu.Unlock()
	if len(c.Distinct) < c.distinctCap {
		c.Distinct[hash] = struct{}{}
	} else if _, ok := c.Distinct[hash]; !ok {
		c.Capped = true
	}
}

func (c *Collector) Sample(s any) {
	c.mu.Lock()
	if len(c.Samples) < 3 {
		c.Samples = append(c.Samples, s)
	}
	c.mu.Unlock()
}

func (c *Collector) AddSim(d time.Duration) {
	c.mu.Lock()
	c.SimSeconds += d.Seconds()
	c.mu.Unlock()
}

type partial struct {
	Prop       string            `json:"prop"`
	Worker     int               `json:"worker"`
	Runs       int64             `json:"runs"`
	Counters   map[string]int64  `json:"counters"`
	Distinct   []string          `json:"distinct"`
	Capped     bool              `json:"capped"`
	Samples    []any             `json:"samples"`
	SimSeconds float64           `json:"sim_seconds"`
	Seeds      []uint64          `json:"seeds"`
	Violations []ViolationRecord `json:"violations"`
	Known      map[string]int64  `json:"known"`
	WallS      float64           `json:"wall_s"`
	Meta       map[string]any    `json:"meta"`
}

func (c *Collector) write(prop string, env *Env, wall float64, meta map[string]any) {
	if env.OutDir == "" {
		return
	}
	p := partial{Prop: prop, Worker: env.Worker, Runs: c.Runs, Counters: c.Counters, Capped: c.Capped, Samples: c.Samples,
		SimSeconds: c.SimSeconds, Seeds: c.Seeds, Violations: c.Violations, Known: c.Known, WallS: wall, Meta: meta}
	for h := range c.Distinct {
		p.Distinct = append(p.Distinct, strconv.FormatUint(h, 16))
	}
	sort.Strings(p.Distinct)
	b, _ := json.Marshal(p)
	os.MkdirAll(env.OutDir, 0o755)
	os.WriteFile(filepath.Join(env.OutDir, fmt.Sprintf("%s.w%02d.json", prop, env.Worker)), b, 0o644)
}

// Finding is one entry of /verif/known_findings.json.
type Finding struct {
	Property  string `json:"property"`
	Status    string `json:"status"` // "known" | "fixed"
	Signature string `json:"signature"`
	What      string `json:"what"`
	Commit    string `json:"commit,omitempty"`
}

func loadFindings(dir string) []Finding {
	var fs []Finding
	b, err := os.ReadFile(filepath.Join(dir, "known_findings.json"))
	if err != nil {
		return nil
	}
	var doc struct {
		Findings []Finding `json:"findings"`
	}
	if json.Unmarshal(b, &doc) == nil {
		fs = doc.Findings
	}
	return fs
}

// Spec describes one property check to the generic run loop.
type Spec struct {
	Prop   string
	Engine string
	// Generate builds the plan of run k from the run's PRNG only.
	Generate func(rng *RNG, env *Env, k int) any
	// Decode parses a plan out of a replay file.
	Decode func(raw json.RawMessage) (any, error)
	// Execute runs a plan against the real code and returns every violation it
	// observed (empty = property held on this execution). It must be a pure
	// function of the plan.
	Execute func(t *testing.T, plan any, col *Collector) []Violation
	// Shrink proposes smaller plans (may be nil).
	Shrink func(plan any) []any
	// Narrow pins a plan to the single fault/image a violation names (may be nil).
	Narrow func(plan any, v Violation) any
	// Hash identifies a plan; NonTrivial decides whether the executed run counts.
	Hash func(plan any) uint64
	// Meta is copied into the evidence (component table, rule, assumptions).
	Meta map[string]any
	// ShrinkBudget caps re-executions during minimisation.
	ShrinkBudget int
	// StallS is the real-time watchdog limit for one run.
	StallS float64
	// StallRecognizer turns a full goroutine dump of a stalled process into a
	// violation if (and only if) it shows the property-specific deadlock pattern.
	StallRecognizer func(dump string) *Violation
}

// stall context published by engines: the plan being executed and the fault
// (step) in flight, so that a recognised deadlock can be reported with a replay.
var (
	stallMu   sync.Mutex
	stallPlan any
	stallStep int
)

// SetStallContext is called by an engine before it runs a faulted execution.
func SetStallContext(step int) { stallMu.Lock(); stallStep = step; stallMu.Unlock() }

// MutexLeakRecognizer recognises "a goroutine waits forever for a sync mutex in
// code of package pkg while no other goroutine is inside pkg's file" — i.e. the
// lock was leaked, not held.
func MutexLeakRecognizer(class, pkg, file string) func(string) *Violation {
	return func(dump string) *Violation {
		var waiter string
		holder := false
		for _, g := range strings.Split(dump, "\n\n") {
			lines := strings.Split(g, "\n")
			if len(lines) == 0 || !strings.HasPrefix(lines[0], "goroutine ") {
				continue
			}
			inPkg := strings.Contains(g, pkg)
			blockedOnMutex := strings.Contains(lines[0], "sync.RWMutex") || strings.Contains(lines[0], "sync.Mutex") || strings.Contains(g, "sync.runtime_SemacquireRWMutex") || strings.Contains(g, "sync.runtime_SemacquireMutex")
			if inPkg && blockedOnMutex {
				if waiter == "" {
					waiter = lines[0]
					for _, l := range lines {
						if strings.Contains(l, pkg) {
							waiter += " in " + strings.TrimSpace(l)
							break
						}
					}
				}
				continue
			}
			if strings.Contains(g, file) {
				holder = true
			}
		}
		if waiter != "" && !holder {
			return &Violation{Class: class, Detail: "deadlock: " + waiter + " waits for a mutex that no goroutine holds (lock leaked on an error path)"}
		}
		return nil
	}
}

// ReplayFile is what a violation is reported as.
type ReplayFile struct {
	Property  string          `json:"property"`
	Engine    string          `json:"engine"`
	Seed      uint64          `json:"seed"`
	Tier      string          `json:"tier"`
	Violation Violation       `json:"violation"`
	Shrunk    bool            `json:"shrunk"`
	ShrinkLog string          `json:"shrink_log,omitempty"`
	Plan      json.RawMessage `json:"plan"`
}

// LastNonTrivial is set by Execute implementations (through Collector) to tell
// the loop whether the run hit a property-specific probe.
type runFlags struct{ nontrivial bool }

var curFlags runFlags

// SetNonTrivial is called by engines during Execute when the run reached at
// least one of the property's non-trivial probes.
func SetNonTrivial() { curFlags.nontrivial = true }

func safeExecute(t *testing.T, s *Spec, plan any, col *Collector) (vs []Violation) {
	stallMu.Lock()
	stallPlan, stallStep = plan, -1
	stallMu.Unlock()
	defer func() {
		if r := recover(); r != nil {
			vs = append(vs, Violation{Class: "harness-panic", Detail: fmt.Sprintf("%v\n%s", r, debug.Stack())})
		}
	}()
	return s.Execute(t, plan, col)
}

// Run is the body of every TestCxx.
func Run(t *testing.T, s *Spec) {
	env := LoadEnv()
	col := NewCollector()
	start := time.Now()
	findings := loadFindings(env.Verif)
	known := map[string]Finding{}
	for _, f := range findings {
		if f.Property == s.Prop && f.Status == "known" {
			known[f.Signature] = f
		}
	}
	if s.StallS == 0 {
		s.StallS = 120
	}
	// real-time watchdog (outside any bubble): an unrecognised stall is an
	// infrastructure failure (exit 2), never a VIOLATION.
	stopWD := make(chan struct{})
	go func() {
		last, lastT := col.progress.Load(), time.Now()
		for {
			select {
			case <-stopWD:
				return
			case <-time.After(2 * time.Second):
			}
			cur := col.progress.Load()
			if cur != last {
				last, lastT = cur, time.Now()
				continue
			}
			if time.Since(lastT).Seconds() > s.StallS {
				buf := make([]byte, 1<<22)
				n := runtime.Stack(buf, true)
				if env.OutDir != "" {
					os.WriteFile(filepath.Join(env.OutDir, fmt.Sprintf("%s.w%02d.stall.txt", s.Prop, env.Worker)), buf[:n], 0o644)
				}
				if s.StallRecognizer != nil {
					time.Sleep(time.Second)
					buf2 := make([]byte, 1<<22)
					n2 := runtime.Stack(buf2, true)
					v1, v2 := s.StallRecognizer(string(buf[:n])), s.StallRecognizer(string(buf2[:n2]))
					stallMu.Lock()
					plan, step := stallPlan, stallStep
					stallMu.Unlock()
					if v1 != nil && v2 != nil && plan != nil {
						v := *v2
						v.Step = step
						if env.Replay != "" {
							fmt.Printf("REPLAY reproduced %s\n", v)
							fmt.Printf("VIOLATION property=%s replay=%s\n", s.Prop, env.Replay)
							os.Exit(1)
						}
						known := false
						for _, f := range findings {
							if f.Property == s.Prop && f.Status == "known" && f.Signature == v.Class {
								fmt.Printf("KNOWN-FINDING: property=%s %s :: %s\n", s.Prop, v.Class, f.What)
								known = true
							}
						}
						if known {
							col.write(s.Prop, env, time.Since(start).Seconds(), s.Meta)
							os.Exit(0)
						}
						if s.Narrow != nil {
							plan = s.Narrow(plan, v)
						}
						raw, _ := json.Marshal(plan)
						rf := ReplayFile{Property: s.Prop, Engine: s.Engine, Seed: env.Seed, Tier: env.Tier, Violation: v, Plan: raw}
						dir := filepath.Join(env.Verif, "replays")
						os.MkdirAll(dir, 0o755)
						path := filepath.Join(dir, fmt.Sprintf("%s-%s-%016x.json", s.Prop, sanitize(v.Class), s.Hash(plan)))
						b, _ := json.MarshalIndent(rf, "", " ")
						os.WriteFile(path, b, 0o644)
						col.Violations = append(col.Violations, ViolationRecord{Violation: v, Replay: path})
						col.write(s.Prop, env, time.Since(start).Seconds(), s.Meta)
						fmt.Printf("VIOLATION-DETAIL property=%s %s\n", s.Prop, v)
						fmt.Printf("VIOLATION property=%s replay=%s\n", s.Prop, path)
						os.Exit(1)
					}
				}
				fmt.Printf("STALL property=%s worker=%d no progress for %.0fs (goroutine dump written)\n", s.Prop, env.Worker, s.StallS)
				os.Exit(2)
			}
		}
	}()
	defer close(stopWD)

	if env.Replay != "" {
		b, err := os.ReadFile(env.Replay)
		if err != nil {
			fmt.Printf("REPLAY-ERROR cannot read %s: %v\n", env.Replay, err)
			os.Exit(2)
		}
		var rf ReplayFile
		if err := json.Unmarshal(b, &rf); err != nil {
			fmt.Printf("REPLAY-ERROR bad replay file: %v\n", err)
			os.Exit(2)
		}
		plan, err := s.Decode(rf.Plan)
		if err != nil {
			fmt.Printf("REPLAY-ERROR bad plan: %v\n", err)
			os.Exit(2)
		}
		vs := safeExecute(t, s, plan, col)
		for _, v := range vs {
			fmt.Printf("REPLAY observed %s\n", v)
		}
		for _, v := range vs {
			if v.Class == rf.Violation.Class {
				fmt.Printf("REPLAY reproduced %s\n", v)
				fmt.Printf("VIOLATION property=%s replay=%s\n", s.Prop, env.Replay)
				os.Exit(1)
			}
		}
		if len(vs) > 0 {
			fmt.Printf("REPLAY did not reproduce class %q; saw instead: %s\n", rf.Violation.Class, vs[0])
			os.Exit(2)
		}
		fmt.Printf("REPLAY clean: recorded violation %q does not occur on this tree\n", rf.Violation.Class)
		return
	}

	unknownFound := false
	for k := 0; ; k++ {
		if env.MaxRuns > 0 && k >= env.MaxRuns {
			break
		}
		if time.Since(start).Seconds() > env.BudgetS && k > 0 {
			break
		}
		seed := Mix(env.Seed, uint64(env.Worker), uint64(k))
		rng := NewRNG(seed)
		plan := s.Generate(rng, env, k)
		if len(col.Seeds) < 8 {
			col.Seeds = append(col.Seeds, seed)
		}
		curFlags = runFlags{}
		markCurrent(s, env, seed, plan)
		vs := safeExecute(t, s, plan, col)
		clearCurrent(s, env)
		col.Tick()
		col.MarkRun(s.Hash(plan), curFlags.nontrivial)
		if dg := os.Getenv("VERIF_DIGEST"); dg != "" {
			// determinism self-test: one line per run, a pure function of what
			// the run did (plan, every counter the engine moved, violations)
			col.mu.Lock()
			names := make([]string, 0, len(col.Counters))
			for n := range col.Counters {
				if !strings.HasPrefix(n, "nd_") && n != "child_retries" {
					names = append(names, n)
				}
			}
			sort.Strings(names)
			var sb strings.Builder
			for _, n := range names {
				fmt.Fprintf(&sb, "%s=%d;", n, col.Counters[n])
			}
			col.mu.Unlock()
			var cls []string
			for _, v := range vs {
				cls = append(cls, fmt.Sprintf("%s@%d", v.Class, v.Step))
			}
			f, err := os.OpenFile(dg, os.O_APPEND|os.O_CREATE|os.O_WRONLY, 0o644)
			if err == nil {
				fmt.Fprintf(f, "%d %d %016x %016x %v\n", k, seed, s.Hash(plan), HashString(sb.String()), cls)
				f.Close()
			}
			if f, err := os.OpenFile(dg+".plans", os.O_APPEND|os.O_CREATE|os.O_WRONLY, 0o644); err == nil {
				pb, _ := json.Marshal(plan)
				fmt.Fprintf(f, "%d %s\n", k, pb)
				f.Close()
			}
			if f, err := os.OpenFile(dg+".full", os.O_APPEND|os.O_CREATE|os.O_WRONLY, 0o644); err == nil {
				fmt.Fprintf(f, "%d %s\n", k, strings.ReplaceAll(sb.String(), ";", "\n  "))
				f.Close()
			}
		}
		for _, v := range vs {
			if v.Class == "harness-panic" {
				// a defect of the harness is infrastructure trouble, never a VIOLATION
				fmt.Printf("HARNESS-PANIC property=%s seed=%d\n%s\n", s.Prop, seed, v.Detail)
				col.write(s.Prop, env, time.Since(start).Seconds(), s.Meta)
				os.Exit(2)
			}
			if f, ok := known[v.Class]; ok {
				col.Known[v.Class+" :: "+f.What]++
				continue
			}
			// unknown violation: minimise, write replay, report, stop this worker
			final, fv, slog := shrink(t, s, plan, v, col)
			raw, _ := json.Marshal(final)
			rf := ReplayFile{Property: s.Prop, Engine: s.Engine, Seed: seed, Tier: env.Tier, Violation: fv, Shrunk: slog != "", ShrinkLog: slog, Plan: raw}
			dir := filepath.Join(env.Verif, "replays")
			os.MkdirAll(dir, 0o755)
			path := filepath.Join(dir, fmt.Sprintf("%s-%s-%016x.json", s.Prop, sanitize(fv.Class), seed))
			b, _ := json.MarshalIndent(rf, "", " ")
			os.WriteFile(path, b, 0o644)
			col.Violations = append(col.Violations, ViolationRecord{Violation: fv, Seed: seed, Replay: path})
			fmt.Printf("VIOLATION-DETAIL property=%s seed=%d %s\n", s.Prop, seed, fv)
			fmt.Printf("VIOLATION property=%s replay=%s\n", s.Prop, path)
			unknownFound = true
			break
		}
		if unknownFound {
			break
		}
	}
	for k, n := range col.Known {
		fmt.Printf("KNOWN-FINDING: property=%s %s (seen %d times by worker %d)\n", s.Prop, k, n, env.Worker)
	}
	col.write(s.Prop, env, time.Since(start).Seconds(), s.Meta)
	if unknownFound {
		os.Exit(1)
	}
}

// markCurrent leaves the plan being executed on disk: if code of the system
// under test crashes the whole process (an unrecovered panic on one of its own
// goroutines), the driver turns this file into the replay file of a
// "process-crash" violation.
func markCurrent(s *Spec, env *Env, seed uint64, plan any) {
	if env.OutDir == "" {
		return
	}
	raw, _ := json.Marshal(plan)
	rf := ReplayFile{Property: s.Prop, Engine: s.Engine, Seed: seed, Tier: env.Tier, Violation: Violation{Class: "process-crash"}, Plan: raw}
	b, _ := json.Marshal(rf)
	os.MkdirAll(env.OutDir, 0o755)
	os.WriteFile(filepath.Join(env.OutDir, fmt.Sprintf("%s.w%02d.current.json", s.Prop, env.Worker)), b, 0o644)
}

func clearCurrent(s *Spec, env *Env) {
	if env.OutDir != "" {
		os.Remove(filepath.Join(env.OutDir, fmt.Sprintf("%s.w%02d.current.json", s.Prop, env.Worker)))
	}
}

func sanitize(s string) string {
	out := []rune{}
	for _, r := range s {
		if (r >= 'a' && r <= 'z') || (r >= 'A' && r <= 'Z') || (r >= '0' && r <= '9') || r == '-' {
			out = append(out, r)
		} else {
			out = append(out, '_')
		}
	}
	if len(out) > 60 {
		out = out[:60]
	}
	return string(out)
}

func shrink(t *testing.T, s *Spec, plan any, v Violation, col *Collector) (any, Violation, string) {
	if s.Shrink == nil {
		s.Shrink = func(any) []any { return nil }
	}
	budget := s.ShrinkBudget
	if budget == 0 {
		budget = 150
	}
	tmp := NewCollector() // shrinking must not pollute measured coverage
	log := []string{}
	improved := true
	for improved && budget > 0 {
		improved = false
		for _, cand := range s.Shrink(plan) {
			if budget <= 0 {
				break
			}
			budget--
			col.Tick()
			vs := safeExecute(t, s, cand, tmp)
			for _, cv := range vs {
				if cv.Class == v.Class {
					plan, v, improved = cand, cv, true
					log = append(log, fmt.Sprintf("kept candidate (hash %x)", s.Hash(cand)))
					break
				}
			}
			if improved {
				break
			}
		}
	}
	if s.Narrow != nil {
		cand := s.Narrow(plan, v)
		for _, cv := range safeExecute(t, s, cand, tmp) {
			if cv.Class == v.Class {
				plan, v = cand, cv
				log = append(log, "narrowed to the single fault")
				break
			}
		}
	}
	if len(log) == 0 {
		return plan, v, ""
	}
	return plan, v, fmt.Sprintf("%d accepted shrink steps", len(log))
}
