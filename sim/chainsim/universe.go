// Package chainsim is the chain-level simulation engine: a universe (genesis,
// fork schedule and a block tree built by the repository's real block-building
// code), nodes running the real core.BlockChain on a simulated disk, and the
// oracles of the chain properties.
package chainsim

import (
	"context"
	"fmt"
	"math/big"
	"strings"

	"github.com/btcsuite/btcd/btcec/v2"
	"gitlab.com/aquachain/aquachain/aquadb"
	"gitlab.com/aquachain/aquachain/common"
	"gitlab.com/aquachain/aquachain/common/log"
	"gitlab.com/aquachain/aquachain/consensus/aquahash"
	"gitlab.com/aquachain/aquachain/consensus/misc"
	"gitlab.com/aquachain/aquachain/core"
	"gitlab.com/aquachain/aquachain/core/types"
	"gitlab.com/aquachain/aquachain/core/vm"
	"gitlab.com/aquachain/aquachain/crypto"
	"gitlab.com/aquachain/aquachain/params"
	"verifsim/refmodel"
	"verifsim/simdisk"
)

func init() {
	log.SetRootHandler(log.DiscardHandler())
}

// GenesisTime keeps every generated timestamp far below the bubble's fake
// clock (2000-01-01 = 946684800) so that no block is a "future block" unless a
// plan says so explicitly.
const GenesisTime = 946684800 - 60_000_000

// Recipe is the explicit, JSON-serialisable description of a universe. It is
// the part of a plan the shrinker understands (prune branches, drop txs).
type Recipe struct {
	ChainID     int64          `json:"chain_id"`
	HF          map[int]uint64 `json:"hf"` // hard fork -> height (absent = never)
	GenesisDiff uint64         `json:"genesis_diff"`
	Accounts    int            `json:"accounts"`
	HF4Funded   int            `json:"hf4_funded"`        // how many HF4-listed addresses get a genesis balance
	Balance     string         `json:"balance,omitempty"` // genesis balance of every account (default 1e27 wei)
	Blocks      []BlockRecipe  `json:"blocks"`            // creation order; block id = index+1 (0 = genesis)
	// Base != 0 puts the genesis block Base seconds after the start of the bubble's clock instead of
	// far below it, so that blocks lie in the node's future ("future-block" histories). The oracle
	// node (which would have to live at a later time than the nodes under test) then imports nothing.
	Base int64 `json:"base,omitempty"`
}

type BlockRecipe struct {
	Parent   int        `json:"p"`   // id of the parent block
	Gap      int64      `json:"gap"` // timestamp delta over the parent (>0)
	Coinbase int        `json:"cb"`  // account index
	Txs      []TxRecipe `json:"txs,omitempty"`
	Uncles   []int      `json:"unc,omitempty"` // ids of candidate uncle blocks (ineligible ones are dropped at build time)
	Extra    string     `json:"extra,omitempty"`
}

// TxRecipe kinds.
const (
	TxTransfer = iota
	TxSetStorage
	TxLog
	TxRevert
	TxOutOfGas
	TxSelfDestruct
	TxForward
	TxCreate
	TxCallThenRevert
	TxCreateFail
	TxCreateDirect // contract creation transaction: the deployed code's length depends on the recipe
	TxExtSize      // a contract that stores EXTCODESIZE of an address a creation transaction may have deployed to
	// (kinds added later go below: recorded plans hold kind numbers)
	TxSelfDestructLoop     // one transaction calls a self-destructing contract three times (value 0, callvalue, 0)
	TxFundDealloc          // plain transfer to an address of the HF4 de-allocation list
	TxBalanceArith         // a contract that reads balances (its own, the caller's, calldata[0]'s) and does arithmetic on the values
	TxFundCreate           // a contract pays its call value to the address its next CREATE will get, then CREATEs there (init code fails, reverts or succeeds)
	TxDelegateSelfDestruct // a contract holding a balance runs SELFDESTRUCT through DELEGATECALL (A even) or CALLCODE (A odd) into a library
	numTxKinds
)

type TxRecipe struct {
	From  int    `json:"f"`
	Kind  int    `json:"k"`
	To    int    `json:"to"`    // account index (transfer / beneficiary / forward target)
	Value uint64 `json:"v"`     // wei
	Price uint64 `json:"price"` // gas price in wei
	A     uint64 `json:"a"`     // template argument (slot / topic count / contract instance)
	B     uint64 `json:"b"`     // template argument (value / topic seed)
}

// Universe is a built recipe.
type Universe struct {
	Recipe   *Recipe
	Cfg      *params.ChainConfig
	Genesis  *core.Genesis
	Keys     []*btcec.PrivateKey
	Addrs    []common.Address
	Blocks   []*types.Block // by id
	Parent   []int
	Receipts []types.Receipts
	TD       []*big.Int // reference model: sum of header difficulties along the ancestry
	ByHash   map[common.Hash]int
	ODB      *aquadb.MemDatabase
	O        *core.BlockChain // oracle node: archive, fault-free, every block imported one at a time
	Engine   *aquahash.Aquahash
	// per block: which tx recipes were actually included
	TxOf       [][]*types.Transaction
	Skipped    int // recipe elements dropped at build time (ineligible uncles, gas overflow)
	usedUncles []usedUncle
	nodes      []*Node
	// TxMeta[id][i] is the recipe of the i-th transaction actually included in block id
	TxMeta    [][]TxRecipe
	curMeta   []TxRecipe
	Contracts map[string]common.Address
	// the address the "fundcreate" contract's next CREATE will produce on the branch being built
	fcTarget common.Address
}

// Contract templates (hand-assembled; each has a known effect).
var (
	codeSetStorage = common.FromHex("6020356000355500")                     // SSTORE(calldata[0], calldata[32])
	codeRevert     = common.FromHex("60006000fd")                           // REVERT(0,0)  (invalid opcode before Byzantium: also a failure)
	codeOutOfGas   = common.FromHex("60016000555b600556")                   // SSTORE(0,1); loop forever
	codeSelfDestr  = common.FromHex("600035ff")                             // SELFDESTRUCT(calldata[0])
	codeForward    = common.FromHex("600060006000600034600035" + "5af100")  // CALL(gas, calldata[0], callvalue, 0,0,0,0)
	codeCreate     = common.FromHex("366000600037" + "36600060" + "00f000") // CREATE(0, mem[0:cds]) with init code = calldata
	// CALL(forwarder...) is approximated by: CALL(gas, calldata[0], callvalue,0,0,0,0) then REVERT
	codeCallThenRevert = common.FromHex("600060006000600034600035" + "5af150" + "60006000fd")
	// mem[0:32] = calldata[32:64]; then CALL(gas, calldata[0], v, 0, 32, 0, 0) for v = 0, callvalue, 0
	codeSelfDestrLoop = common.FromHex("60206020600037" +
		"6000600060206000" + "6000" + "6000355af150" +
		"6000600060206000" + "34" + "6000355af150" +
		"6000600060206000" + "6000" + "6000355af150" + "00")
)

// the value BALANCE pushes is used as the in-place operand of arithmetic, dropped, and followed by
// fresh pushes (which recycle dropped stack words): none of that may change an account
var codeBalanceArith = common.FromHex("" +
	"3031800150" + // ADDRESS BALANCE DUP1 ADD POP
	"3331600101" + "50" + // CALLER BALANCE PUSH1 1 ADD POP
	"6001303101" + "50" + // PUSH1 1 ADDRESS BALANCE ADD POP
	"600750" + // PUSH1 7 POP
	"600035316003" + "0250" + // calldata[0] BALANCE PUSH1 3 MUL POP
	"60093331" + "0350" + // PUSH1 9 CALLER BALANCE SUB POP
	"6005600b01" + "5000") // PUSH1 5 PUSH1 11 ADD POP STOP

// CALL(gas, calldata[0], callvalue, 0,0,0,0); mem[0:32] = calldata[32:64]; CREATE(0, 0, calldata[64])
var codeFundCreate = common.FromHex("600060006000600034600035" + "5af150" +
	"60206020600037" + "60403560006000f0" + "5000")

func codeLog(n int) []byte {
	// CALLDATACOPY(0,0,calldatasize); push topic n..1 from mem[32*i]; LOGn(0,32,topics...)
	c := common.FromHex("366000600037")
	for i := n; i >= 1; i-- {
		c = append(c, 0x60, byte(32*i), 0x51)
	}
	c = append(c, 0x60, 0x20, 0x60, 0x00, 0xa0+byte(n), 0x00)
	return c
}

func contractAddr(name string) common.Address {
	a := common.BytesToAddress(refmodel.Keccak([]byte("verif-contract-" + name))[12:])
	if strings.HasPrefix(name, "logb") {
		// the second family of emitters lives at addresses with leading zero bytes
		a[0], a[1] = 0, 0
	}
	return a
}

func keyFor(i int) *btcec.PrivateKey {
	b := refmodel.Keccak([]byte(fmt.Sprintf("verif-account-%d", i)))
	k, err := crypto.BytesToKey(b)
	if err != nil {
		panic(err)
	}
	return k
}

func bigU(x uint64) *big.Int { return new(big.Int).SetUint64(x) }

// ChainConfig builds the params.ChainConfig of a recipe. EIP-155/158/Byzantium
// are tied to HF7 exactly as the built-in configurations do.
func (r *Recipe) ChainConfig() *params.ChainConfig {
	hf := params.ForkMap{}
	for k, v := range r.HF {
		hf[k] = bigU(v)
	}
	cfg := &params.ChainConfig{
		ChainId:        big.NewInt(r.ChainID),
		HomesteadBlock: big.NewInt(0),
		EIP150Block:    big.NewInt(0),
		Aquahash:       new(params.AquahashConfig),
		HF:             hf,
	}
	if h, ok := r.HF[7]; ok {
		cfg.EIP155Block, cfg.EIP158Block, cfg.ByzantiumBlock = bigU(h), bigU(h), bigU(h)
	}
	return cfg
}

// HF4Addrs is the protocol's HF4 de-allocation list (data only); a recipe may
// fund the first few of them at genesis.
var HF4Addrs = misc.DeallocListHF4

// Build constructs the universe with the repository's real block-building
// code (core.GenerateChain one block at a time on the chosen parent) and
// imports every block into the oracle node O.
func Build(r *Recipe) (u *Universe, err error) {
	defer func() {
		if p := recover(); p != nil {
			err = fmt.Errorf("universe build panic: %v", p)
		}
	}()
	u = &Universe{Recipe: r, Cfg: r.ChainConfig(), ByHash: map[common.Hash]int{}, Contracts: map[string]common.Address{}}
	alloc := core.GenesisAlloc{}
	rich, _ := new(big.Int).SetString("1000000000000000000000000000", 10) // 1e27 wei
	if r.Balance != "" {
		if b, ok := new(big.Int).SetString(r.Balance, 10); ok {
			rich = b
		}
	}
	for i := 0; i < r.Accounts; i++ {
		k := keyFor(i)
		u.Keys = append(u.Keys, k)
		a := crypto.PubkeyToAddress(k.PubKey())
		u.Addrs = append(u.Addrs, a)
		alloc[a] = core.GenesisAccount{Balance: new(big.Int).Set(rich)}
	}
	add := func(name string, code []byte, bal int64) {
		a := contractAddr(name)
		u.Contracts[name] = a
		alloc[a] = core.GenesisAccount{Balance: big.NewInt(bal), Code: code}
	}
	add("set", codeSetStorage, 0)
	add("revert", codeRevert, 0)
	add("oog", codeOutOfGas, 0)
	for i := 0; i < 4; i++ {
		add(fmt.Sprintf("sd%d", i), codeSelfDestr, 1000+int64(i))
	}
	add("fwd", codeForward, 0)
	add("create", codeCreate, 0)
	add("callrevert", codeCallThenRevert, 0)
	add("extsize", common.FromHex("6000353b60005500"), 0) // SSTORE(0, EXTCODESIZE(calldata[0]))
	add("sdloop", codeSelfDestrLoop, 0)
	add("sdlib", codeSelfDestr, 0)
	lib := contractAddr("sdlib").Bytes()
	// CALLDATACOPY(0,0,size); DELEGATECALL / CALLCODE (gas, sdlib, [0,] 0, size, 0, 0): the library's SELFDESTRUCT runs on this account
	add("dsd0", append(append(common.FromHex("366000600037"+"60006000366000"+"73"), lib...), common.FromHex("5af400")...), 2000)
	add("dsd1", append(append(common.FromHex("366000600037"+"600060003660006000"+"73"), lib...), common.FromHex("5af200")...), 2001)
	add("balarith", codeBalanceArith, 5)
	add("fundcreate", codeFundCreate, 0)
	for n := 0; n <= 4; n++ {
		add(fmt.Sprintf("log%d", n), codeLog(n), 0)
		add(fmt.Sprintf("logb%d", n), codeLog(n), 0) // second emitter with the same behaviour
	}
	for i := 0; i < r.HF4Funded && i < len(HF4Addrs); i++ {
		alloc[common.HexToAddress(HF4Addrs[i])] = core.GenesisAccount{Balance: big.NewInt(1_000_000_000 + int64(i))}
	}
	gd := r.GenesisDiff
	if gd == 0 {
		gd = 100_000_000
	}
	gtime := uint64(GenesisTime)
	if r.Base != 0 {
		gtime = uint64(946684800 + r.Base)
	}
	u.Genesis = &core.Genesis{Config: u.Cfg, Timestamp: gtime, GasLimit: 8_000_000, Difficulty: bigU(gd), Alloc: alloc}
	u.ODB = aquadb.NewMemDatabase()
	gblock := u.Genesis.MustCommit(u.ODB)
	u.Engine = aquahash.NewFaker()
	ctx := context.Background()
	u.O, err = core.NewBlockChain(ctx, u.ODB, &core.CacheConfig{Disabled: true}, u.Cfg, u.Engine, vm.Config{})
	if err != nil {
		return nil, err
	}
	u.Blocks = []*types.Block{gblock}
	u.Parent = []int{-1}
	u.Receipts = []types.Receipts{nil}
	u.TD = []*big.Int{new(big.Int).Set(gblock.Difficulty())}
	u.TxOf = [][]*types.Transaction{nil}
	u.TxMeta = [][]TxRecipe{nil}
	u.ByHash[gblock.Hash()] = 0

	for idx := range r.Blocks {
		br := &r.Blocks[idx]
		id := idx + 1
		if br.Parent < 0 || br.Parent >= id {
			return nil, fmt.Errorf("recipe block %d has bad parent %d", id, br.Parent)
		}
		parent := u.Blocks[br.Parent]
		u.curMeta = nil
		blocks, receipts := core.GenerateChain(ctx, u.Cfg, parent, u.Engine, u.ODB, 1, func(_ int, g *core.BlockGen) {
			u.fillBlock(g, id, br, parent)
		})
		u.TxMeta = append(u.TxMeta, u.curMeta)
		b := blocks[0]
		u.Blocks = append(u.Blocks, b)
		u.Parent = append(u.Parent, br.Parent)
		u.Receipts = append(u.Receipts, receipts[0])
		u.TD = append(u.TD, new(big.Int).Add(u.TD[br.Parent], b.Difficulty()))
		u.TxOf = append(u.TxOf, b.Transactions())
		if old, dup := u.ByHash[b.Hash()]; dup {
			return nil, fmt.Errorf("recipe builds the same block twice (ids %d and %d)", old, id)
		}
		u.ByHash[b.Hash()] = id
		if r.Base != 0 {
			continue
		}
		if n, err := u.O.InsertChain(types.Blocks{b}); err != nil {
			return nil, fmt.Errorf("%w %d (#%d) at %d: %v", ErrOracleRejected, id, b.NumberU64(), n, err)
		}
	}
	return u, nil
}

// Close stops the oracle node and every node still running on this universe
// (dead ones are reaped first so that Stop cannot block on their locks).
func (u *Universe) Close() {
	var disks []*simdisk.Disk
	for _, n := range u.nodes {
		if n.Died != "" {
			disks = append(disks, n.Disk)
		}
	}
	Reap(disks...)
	for _, n := range u.nodes {
		if n.BC != nil {
			guarded(func() { n.BC.Stop() })
		}
	}
	if u.O != nil {
		u.O.Stop()
	}
}

func word(x uint64) []byte             { return common.LeftPadBytes(bigU(x).Bytes(), 32) }
func addrWord(a common.Address) []byte { return common.LeftPadBytes(a.Bytes(), 32) }

// TopicFor derives a small universe of topic values so that filters hit.
func TopicFor(seed uint64) common.Hash {
	h := common.BytesToHash(refmodel.Keccak([]byte(fmt.Sprintf("topic-%d", seed%7))))
	if seed%7 == 6 {
		h[0], h[1], h[2] = 0, 0, 0 // one topic value with leading zero bytes
	}
	return h
}

// makeTx turns a tx recipe into a signed transaction for the given nonce.
func (u *Universe) makeTx(tr *TxRecipe, nonce uint64, number *big.Int) (*types.Transaction, uint64) {
	from := tr.From % len(u.Keys)
	to := u.Addrs[tr.To%len(u.Addrs)]
	price := bigU(tr.Price)
	val := bigU(tr.Value)
	var tx *types.Transaction
	var gas uint64
	switch tr.Kind % numTxKinds {
	case TxTransfer:
		gas = 21000
		tx = types.NewTransaction(nonce, to, val, gas, price, nil)
	case TxSetStorage:
		gas = 80000
		tx = types.NewTransaction(nonce, u.Contracts["set"], val, gas, price, append(word(tr.A%6), word(tr.B%3)...))
	case TxLog:
		n := int(tr.A % 5)
		name := fmt.Sprintf("log%d", n)
		if tr.A%10 >= 5 {
			name = fmt.Sprintf("logb%d", n)
		}
		data := word(tr.B)
		for i := 0; i < n; i++ {
			data = append(data, TopicFor(tr.B+uint64(i)*3).Bytes()...)
		}
		gas = 90000
		tx = types.NewTransaction(nonce, u.Contracts[name], new(big.Int), gas, price, data)
	case TxRevert:
		gas = 60000
		tx = types.NewTransaction(nonce, u.Contracts["revert"], val, gas, price, nil)
	case TxOutOfGas:
		gas = 60000
		tx = types.NewTransaction(nonce, u.Contracts["oog"], val, gas, price, nil)
	case TxSelfDestruct:
		gas = 90000
		ben := to
		switch tr.B % 3 {
		case 1:
			ben = u.Contracts[fmt.Sprintf("sd%d", tr.A%4)] // beneficiary = self
		case 2:
			ben = common.BytesToAddress(refmodel.Keccak(word(tr.B))[12:]) // fresh address
		}
		tx = types.NewTransaction(nonce, u.Contracts[fmt.Sprintf("sd%d", tr.A%4)], val, gas, price, addrWord(ben))
	case TxForward:
		gas = 120000
		tx = types.NewTransaction(nonce, u.Contracts["fwd"], val, gas, price, addrWord(to))
	case TxCreate:
		gas = 250000
		// init code: SSTORE(0,1) and return 1 byte of code (00)
		init := common.FromHex("6001600055" + "60006000" + "53" + "60016000f3")
		tx = types.NewTransaction(nonce, u.Contracts["create"], new(big.Int), gas, price, init)
	case TxCallThenRevert:
		gas = 120000
		tx = types.NewTransaction(nonce, u.Contracts["callrevert"], val, gas, price, addrWord(to))
	case TxCreateDirect:
		gas = 120000
		// init code: RETURN(0, L) - deploys L zero bytes (STOPs); L differs between recipes, so two
		// branches can deploy different code at the same address (same sender, same nonce)
		tx = types.NewContractCreation(nonce, new(big.Int), gas, price, []byte{0x60, byte(1 + tr.A%5), 0x60, 0x00, 0xf3})
	case TxExtSize:
		gas = 90000
		target := crypto.CreateAddress(to, tr.B%3)
		tx = types.NewTransaction(nonce, u.Contracts["extsize"], val, gas, price, addrWord(target))
	case TxSelfDestructLoop:
		gas = 300000
		ben := to
		if tr.B%2 == 1 {
			ben = common.BytesToAddress(refmodel.Keccak(word(tr.B + 77))[12:]) // fresh address
		}
		tx = types.NewTransaction(nonce, u.Contracts["sdloop"], val, gas, price, append(addrWord(u.Contracts[fmt.Sprintf("sd%d", tr.A%4)]), addrWord(ben)...))
	case TxFundDealloc:
		gas = 21000
		tx = types.NewTransaction(nonce, common.HexToAddress(HF4Addrs[int(tr.A)%4]), val, gas, price, nil)
	case TxDelegateSelfDestruct:
		gas = 150000
		wallet := u.Contracts[fmt.Sprintf("dsd%d", tr.A%2)]
		ben := to
		switch tr.B % 3 {
		case 1:
			ben = wallet // beneficiary = the wallet itself
		case 2:
			ben = common.BytesToAddress(refmodel.Keccak(word(tr.B + 31))[12:]) // fresh address
		}
		tx = types.NewTransaction(nonce, wallet, val, gas, price, addrWord(ben))
	case TxBalanceArith:
		gas = 90000
		tx = types.NewTransaction(nonce, u.Contracts["balarith"], val, gas, price, addrWord(to))
	case TxFundCreate:
		gas = 250000
		init := [][]byte{{0xfe}, common.FromHex("60006000fd"), common.FromHex("600060005360016000f3")}[tr.B%3]
		data := append(addrWord(u.fcTarget), common.RightPadBytes(init, 32)...)
		tx = types.NewTransaction(nonce, u.Contracts["fundcreate"], val, gas, price, append(data, word(uint64(len(init)))...))
	case TxCreateFail:
		gas = 150000
		// direct contract creation whose init code reverts / runs an invalid opcode, or (B odd)
		// returns one byte more code than a contract may have
		init := common.FromHex("60016000556000fe")
		if tr.B%2 == 1 {
			init = common.FromHex("6001600055" + "6160016000f3") // SSTORE(0,1); RETURN(0, 0x6001)
		}
		tx = types.NewContractCreation(nonce, val, gas, price, init)
	}
	signed, err := types.SignTx(tx, types.MakeSigner(u.Cfg, number), u.Keys[from])
	if err != nil {
		panic(err)
	}
	return signed, gas
}

func (u *Universe) fillBlock(g *core.BlockGen, id int, br *BlockRecipe, parent *types.Block) {
	g.SetCoinbase(u.Addrs[br.Coinbase%len(u.Addrs)])
	if br.Extra != "" {
		g.SetExtra([]byte(br.Extra))
	}
	if br.Gap <= 0 {
		br.Gap = 1
	}
	g.OffsetTime(br.Gap - 240) // GenerateChain starts at parent+240
	number := g.Number()
	gasBudget := parent.GasLimit() * 9 / 10 // conservative: CalcGasLimit moves by < 1/1024
	nonces := map[int]uint64{}
	for i := range br.Txs {
		tr := &br.Txs[i]
		from := tr.From % len(u.Keys)
		if _, ok := nonces[from]; !ok {
			nonces[from] = g.TxNonce(u.Addrs[from])
		}
		fc := u.Contracts["fundcreate"]
		u.fcTarget = crypto.CreateAddress(fc, g.TxNonce(fc))
		tx, gas := u.makeTx(tr, nonces[from], number)
		if gas > gasBudget {
			u.Skipped++
			continue
		}
		gasBudget -= gas
		g.AddTx(tx)
		u.curMeta = append(u.curMeta, *tr)
		nonces[from]++
	}
	// uncles: keep only candidates the consensus rules allow
	maxUncles := 2
	if u.Cfg.IsHF(5, number) {
		maxUncles = 1
	}
	added := 0
	for _, uid := range br.Uncles {
		if added >= maxUncles {
			u.Skipped++
			continue
		}
		dupHere := false
		for _, uu := range u.usedUncles {
			if uu.block == id && uu.uncle == uid {
				dupHere = true
			}
		}
		if dupHere || uid <= 0 || uid >= id || !u.uncleEligible(uid, br.Parent, number.Uint64()) {
			u.Skipped++
			continue
		}
		h := u.Blocks[uid].Header()
		g.AddUncle(h)
		added++
		// remember so that a later block on this branch does not include it again
		u.usedUncles = append(u.usedUncles, usedUncle{block: id, uncle: uid})
	}
}

type usedUncle struct{ block, uncle int }

// uncleEligible mirrors the statement of C13 (recent, unique, not an ancestor,
// parent is an ancestor within 6 generations but not the block's own parent).
func (u *Universe) uncleEligible(uid, parentID int, number uint64) bool {
	un := u.Blocks[uid].NumberU64()
	if un >= number || number-un > 6 {
		return false
	}
	// ancestors of the new block within 7 generations
	anc := map[int]bool{}
	cur := parentID
	for i := 0; i < 7 && cur >= 0; i++ {
		anc[cur] = true
		cur = u.Parent[cur]
	}
	if anc[uid] {
		return false
	}
	up := u.Parent[uid]
	if !anc[up] || up == parentID {
		return false
	}
	// not already included by one of those ancestors
	for _, uu := range u.usedUncles {
		if uu.uncle == uid && anc[uu.block] {
			return false
		}
	}
	return true
}

// Ancestor returns the id of the ancestor of id at the given height (or -1).
func (u *Universe) Ancestor(id int, number uint64) int {
	for id >= 0 && u.Blocks[id].NumberU64() > number {
		id = u.Parent[id]
	}
	if id >= 0 && u.Blocks[id].NumberU64() == number {
		return id
	}
	return -1
}

// Path returns the ids from (excluding) ancestor anc down to id, oldest first.
func (u *Universe) Path(anc, id int) []int {
	var p []int
	for id != anc && id > 0 {
		p = append([]int{id}, p...)
		id = u.Parent[id]
	}
	return p
}

// IsAncestor reports whether a is an ancestor of (or equal to) b.
func (u *Universe) IsAncestor(a, b int) bool {
	for b >= 0 {
		if a == b {
			return true
		}
		b = u.Parent[b]
	}
	return false
}
