package chainsim

import (
	"encoding/json"
	"fmt"
	"math/big"
	mrand "math/rand"
	"runtime"
	"testing"
	"time"

	"gitlab.com/aquachain/aquachain/aqua/accounts"
	"gitlab.com/aquachain/aquachain/aqua/event"
	"gitlab.com/aquachain/aquachain/aquadb"
	"gitlab.com/aquachain/aquachain/common"
	"gitlab.com/aquachain/aquachain/common/verifhook"
	"gitlab.com/aquachain/aquachain/consensus"
	"gitlab.com/aquachain/aquachain/core"
	"gitlab.com/aquachain/aquachain/core/types"
	"gitlab.com/aquachain/aquachain/opt/miner"
	"verifsim/kernel"
)

// ---- C01, the node's own block-building path --------------------------------------------------
//
// A real miner (opt/miner: worker, agent, unconfirmed set) runs on a real chain
// and a real transaction pool.  Proof-of-work discovery is the simulator's: the
// engine's Seal parks until the plan says "this miner found a block now".
// Every block the miner assembles is handed to an independent importer node and
// must be accepted with identical receipts and post-state.

type MineStep struct {
	Kind string    `json:"k"`            // tx | mine | sibling | race (the mined block's write is held while a sibling of it is imported)
	Tx   *TxRecipe `json:"tx,omitempty"` // tx: submitted to the pool (local or remote)
	Wait int       `json:"wait,omitempty"`
	Rem  bool      `json:"remote,omitempty"`
	Pct  int       `json:"pct,omitempty"` // tx: value as a percentage of the sender's current balance (0 = recipe value)
	// sibling: the competing branch forks Depth blocks below the head and has Depth+Extra blocks
	Depth int `json:"depth,omitempty"`
	Extra int `json:"extra,omitempty"`
}

type MinePlan struct {
	Recipe    Recipe     `json:"universe"` // genesis only (no recipe blocks)
	Steps     []MineStep `json:"steps"`
	OrderSeed uint64     `json:"order_seed,omitempty"`
	Race      bool       `json:"race,omitempty"` // plan of the C02 sub-mode "mined block versus imported block"
}

func DecodeMinePlan(raw json.RawMessage) (any, error) {
	p := &MinePlan{}
	return p, json.Unmarshal(raw, p)
}

func GenMinePlan(rng *kernel.RNG, env *kernel.Env, k int) any {
	o := GenOpts{MinMain: 1, MaxMain: 1, MaxForks: 0, MaxTx: 0, ForkModes: []string{"nohf", "allhf", "staged"}}
	p := &MinePlan{Recipe: GenRecipe(rng, o)}
	p.Recipe.Blocks = nil
	if rng.Intn(2) == 0 {
		p.OrderSeed = rng.Uint64() | 1
	}
	// modest balances, so that queued transfers can be affordable one by one but not in sum
	p.Recipe.Balance = []string{"1000000000000000", "50000000000000000", "1000000000000000000000000000"}[rng.Intn(3)]
	n := rng.Range(6, 40)
	for i := 0; i < n; i++ {
		switch r := rng.Intn(10); {
		case r < 6:
			txs := genTxs(rng, p.Recipe.Accounts, 1)
			if len(txs) == 0 {
				txs = []TxRecipe{{From: rng.Intn(p.Recipe.Accounts), To: rng.Intn(p.Recipe.Accounts), Price: 1_000_000_000}}
			}
			tx := txs[0]
			st := MineStep{Kind: "tx", Tx: &tx, Rem: rng.Intn(3) == 0}
			if tx.Kind == TxTransfer && rng.Intn(2) == 0 {
				st.Pct = []int{30, 45, 60, 75, 95, 100}[rng.Intn(6)]
				if tx.Price == 0 {
					st.Tx.Price = 1_000_000_000
				}
			}
			p.Steps = append(p.Steps, st)
		case r < 9:
			p.Steps = append(p.Steps, MineStep{Kind: "mine", Wait: []int{2, 2, 5, 30, 240, 600}[rng.Intn(6)]})
		default:
			p.Steps = append(p.Steps, MineStep{Kind: "sibling", Wait: []int{2, 10, 300}[rng.Intn(3)], Depth: []int{1, 1, 2, 3, 5}[rng.Intn(5)], Extra: rng.Intn(2)})
		}
	}
	p.Steps = append(p.Steps, MineStep{Kind: "mine", Wait: 3}, MineStep{Kind: "mine", Wait: 3})
	return p
}

// GenMineRacePlan: miner histories in which the write of a freshly mined block and the import
// of a competing block of the same height overlap (C02: the head stays a heaviest block).
func GenMineRacePlan(rng *kernel.RNG, env *kernel.Env, k int) any {
	p := GenMinePlan(rng, env, k).(*MinePlan)
	p.Race = true
	var steps []MineStep
	for _, st := range p.Steps {
		if st.Kind == "mine" && rng.Intn(2) == 0 {
			// Extra: 0 = the sibling is stamped later than the mined block can be (lighter), 1 = as early as allowed (heavier)
			st = MineStep{Kind: "race", Wait: []int{2, 5, 30, 240}[rng.Intn(4)], Extra: rng.Intn(2), Depth: []int{1, 2, 7, 60, 600}[rng.Intn(5)]}
		}
		steps = append(steps, st)
	}
	p.Steps = append(steps, MineStep{Kind: "race", Wait: 5, Extra: 1, Depth: 1}, MineStep{Kind: "mine", Wait: 3})
	return p
}

func HashMinePlan(p any) uint64 { b, _ := json.Marshal(p); return kernel.HashBytes(b) }

func ShrinkMinePlan(pa any) []any {
	p := pa.(*MinePlan)
	var out []any
	for size := len(p.Steps) / 2; size >= 1; size /= 2 {
		for at := len(p.Steps) - size; at >= 0; at -= size {
			q := *p
			q.Steps = append(append([]MineStep{}, p.Steps[:at]...), p.Steps[at+size:]...)
			out = append(out, &q)
		}
	}
	return out
}

// gatedEngine delegates everything to the real engine; Seal waits for the simulator.
type gatedEngine struct {
	consensus.Engine
	gate chan struct{}
}

func (e *gatedEngine) Seal(chain consensus.ChainReader, block *types.Block, stop <-chan struct{}) (*types.Block, error) {
	select {
	case <-e.gate:
		return e.Engine.Seal(chain, block, stop)
	case <-stop:
		return nil, nil
	}
}

type minerBackend struct {
	bc   *core.BlockChain
	pool *core.TxPool
	db   aquadb.Database
}

func (b *minerBackend) AccountManager() *accounts.Manager { return nil }
func (b *minerBackend) BlockChain() *core.BlockChain      { return b.bc }
func (b *minerBackend) TxPool() *core.TxPool              { return b.pool }
func (b *minerBackend) ChainDb() aquadb.Database          { return b.db }

// MinerRig is a real miner on a node, with the simulator owning proof-of-work
// discovery: Found() lets exactly one waiting Seal return.
type MinerRig struct {
	Node  *Node
	Pool  *core.TxPool
	Mux   *event.TypeMux
	Miner *miner.Miner
	eng   *gatedEngine
}

// NewMinerRig builds pool, event mux and miner for node n (the miner is not started).
func NewMinerRig(u *Universe, n *Node) *MinerRig {
	poolCfg := core.DefaultTxPoolConfig
	poolCfg.Journal = ""
	poolCfg.PriceLimit = 0
	r := &MinerRig{Node: n, Pool: core.NewTxPool(poolCfg, u.Cfg, n.BC), Mux: new(event.TypeMux), eng: &gatedEngine{Engine: u.Engine, gate: make(chan struct{})}}
	r.Miner = miner.New(&minerBackend{bc: n.BC, pool: r.Pool, db: n.Disk}, u.Cfg, r.Mux, r.eng)
	return r
}

// Ahead keeps the bubble clock at least two seconds past the head's timestamp
// (the worker sleeps with its locks held when the next timestamp lies in the future).
func (r *MinerRig) Ahead() {
	headT := time.Unix(r.Node.BC.CurrentBlock().Time().Int64(), 0)
	if d := time.Until(headT); d > -2*time.Second {
		time.Sleep(d + 2*time.Second)
	}
}

// Recommit makes the worker assemble fresh work stamped with the current time
// (a real miner's work ages with the clock only when it is rebuilt).
func (r *MinerRig) Recommit(coinbase common.Address) {
	r.Ahead()
	r.Miner.Stop()
	time.Sleep(100 * time.Millisecond)
	r.Ahead()
	r.Miner.Start(coinbase)
	time.Sleep(100 * time.Millisecond)
}

// Found releases one waiting Seal; false if no sealer was waiting within 5 simulated seconds.
func (r *MinerRig) Found() bool {
	select {
	case r.eng.gate <- struct{}{}:
		return true
	case <-time.After(5 * time.Second):
		return false
	}
}

// MakeTx signs a transaction of the universe's templates for the next block of node n.
func (u *Universe) MakeTx(tr *TxRecipe, nonce uint64, next *big.Int) *types.Transaction {
	tx, _ := u.makeTx(tr, nonce, next)
	return tx
}

// GenTxs draws transaction recipes (exported for the full-stack simulation).
func GenTxs(rng *kernel.RNG, accounts, max int) []TxRecipe { return genTxs(rng, accounts, max) }

// NodeStateDigest is the independent-traversal digest of a state on node n.
func NodeStateDigest(n *Node, root common.Hash) (string, error) { return nodeStateDigest(n, root) }

func ExecMine(t *testing.T, pa any, col *kernel.Collector) []kernel.Violation {
	p := pa.(*MinePlan)
	var vs []kernel.Violation
	Bubble(t, func() { vs = execMine(p, col) })
	return vs
}

func execMine(p *MinePlan, col *kernel.Collector) []kernel.Violation {
	// worker, agent, pool and chain goroutines really race here: one P, so that which of them
	// runs next is the runtime's deterministic run queue and not the machine's parallelism
	defer runtime.GOMAXPROCS(runtime.GOMAXPROCS(1))
	simStart := time.Now() // the bubble's clock: elapsed = simulated time
	defer func() { col.AddSim(time.Since(simStart)) }()
	ResetCrit()
	defer InstallMapOrder(p.OrderSeed)()
	mrand.Seed(int64(HashMinePlan(p) & 0x7fffffffffffffff))
	var vs []kernel.Violation
	add := func(class string, step int, f string, a ...any) {
		vs = append(vs, kernel.Violation{Class: class, Step: step, Detail: fmt.Sprintf(f, a...)})
	}
	u, err := Build(&p.Recipe)
	if err != nil {
		col.Inc("universe_build_failed")
		return nil
	}
	defer func() { u.Close(); SettleTime(3 * time.Second) }()
	// the bubble's clock starts in 2000; the genesis and the blocks are stamped relative to it
	M, err := NewNode(u, NodeCfg{Archive: true})
	if err != nil {
		add("open-error", -1, "%v", err)
		return vs
	}
	I, err := NewNode(u, NodeCfg{Archive: true})
	if err != nil {
		add("open-error", -1, "%v", err)
		return vs
	}
	poolCfg := core.DefaultTxPoolConfig
	poolCfg.Journal = ""
	poolCfg.PriceLimit = 0
	pool := core.NewTxPool(poolCfg, u.Cfg, M.BC)
	defer pool.Stop()
	mux := new(event.TypeMux)
	eng := &gatedEngine{Engine: u.Engine, gate: make(chan struct{})}
	mn := miner.New(&minerBackend{bc: M.BC, pool: pool, db: M.Disk}, u.Cfg, mux, eng)
	coinbase := u.Addrs[0]
	// race steps: the next WriteBlockWithState that arrives while holdNext is set parks before
	// it takes the chain mutex (guarded yield point), until the step releases it
	var (
		hookMu   = make(chan struct{}, 1)
		holdNext bool
		parked   = make(chan common.Hash, 4)
		release  = make(chan struct{})
	)
	hookMu <- struct{}{}
	prevYield := verifhook.Yield
	verifhook.Yield = func(site string, arg interface{}) {
		if site != "blockchain.WriteBlockWithState.lock" {
			return
		}
		<-hookMu
		hold := holdNext
		holdNext = false
		hookMu <- struct{}{}
		if hold {
			h, _ := arg.(common.Hash)
			parked <- h
			<-release
		}
	}
	defer func() { verifhook.Yield = prevYield }()
	// keep the clock ahead of the head's timestamp: the worker sleeps with its locks
	// held when the next timestamp would lie in the future
	ahead := func(extra time.Duration) {
		headT := time.Unix(M.BC.CurrentBlock().Time().Int64(), 0)
		if d := time.Until(headT); d > -2*time.Second {
			time.Sleep(d + 2*time.Second)
		}
		time.Sleep(extra)
	}
	ahead(0)
	mn.Start(coinbase)
	time.Sleep(time.Second)
	defer func() {
		ahead(0)
		mn.Stop()
		time.Sleep(2 * time.Second)
	}()
	nonces := map[int]uint64{}
	imported := uint64(0)
	// importOwn hands every block the miner node made canonical to the importer
	importOwn := func(step int) bool {
		for imported < M.BC.CurrentBlock().NumberU64() {
			b := M.BC.GetBlockByNumber(imported + 1)
			if b == nil {
				add("own-mined-block-not-stored", step, "the miner's chain has head #%d but no block #%d", M.BC.CurrentBlock().NumberU64(), imported+1)
				return false
			}
			cp := types.NewBlockWithHeader(b.Header()).WithBody(b.Transactions(), b.Uncles())
			var ierr error
			died, pan := guarded(func() { _, ierr = I.BC.InsertChain(types.Blocks{cp}) })
			if died != "" || pan != "" {
				add("own-mined-block-kills-importer", step, "importing the miner's block #%d: %s %s", b.NumberU64(), died, pan)
				return false
			}
			if ierr != nil {
				add("own-mined-block-rejected", step, "the import path refuses block #%d (%d txs, %d uncles) that the node's own miner assembled and made its head: %v", b.NumberU64(), len(b.Transactions()), len(b.Uncles()), ierr)
				return false
			}
			col.Inc("mined_blocks_imported")
			if len(b.Transactions()) > 0 {
				col.Inc("probe_mined_block_with_transactions")
			}
			if len(b.Uncles()) > 0 {
				col.Inc("probe_mined_block_with_uncle")
			}
			dm, err1 := nodeStateDigest(M, b.Root())
			di, err2 := nodeStateDigest(I, b.Root())
			if err1 != nil || err2 != nil || dm != di {
				add("mined-and-imported-state-differ", step, "block #%d: miner node state %s (%v), importer state %s (%v)", b.NumberU64(), dm, err1, di, err2)
				return false
			}
			rm, ri := receiptsDigest(M.BC.GetReceiptsByHash(b.Hash())), receiptsDigest(I.BC.GetReceiptsByHash(b.Hash()))
			if rm != ri {
				add("mined-and-imported-receipts-differ", step, "block #%d: the receipts the miner stored differ from the ones the import path computed", b.NumberU64())
				return false
			}
			imported++
		}
		return true
	}
	for i, st := range p.Steps {
		col.Tick()
		switch st.Kind {
		case "tx":
			from := st.Tx.From % len(u.Keys)
			if _, ok := nonces[from]; !ok {
				nonces[from] = pool.State().GetNonce(u.Addrs[from])
			}
			tr := *st.Tx
			if st.Pct > 0 {
				state, err := M.BC.State()
				if err == nil {
					bal := state.GetBalance(u.Addrs[from])
					v := new(big.Int).Div(new(big.Int).Mul(bal, big.NewInt(int64(st.Pct))), big.NewInt(100))
					// leave room for this transaction's own gas, so that the pool admits it
					v.Sub(v, new(big.Int).Mul(big.NewInt(21000), bigU(tr.Price)))
					if v.Sign() > 0 && v.IsUint64() {
						tr.Value = v.Uint64()
					} else if v.Sign() > 0 {
						tr.Value = 0
					}
				}
			}
			tx, _ := u.makeTx(&tr, nonces[from], new(big.Int).Add(M.BC.CurrentBlock().Number(), common.Big1))
			var aerr error
			if st.Rem {
				aerr = pool.AddRemote(tx)
			} else {
				aerr = pool.AddLocal(tx)
			}
			if aerr == nil {
				nonces[from]++
				col.Inc("pool_transactions_admitted")
			} else {
				col.Inc("pool_transactions_refused")
			}
			time.Sleep(10 * time.Millisecond)
		case "mine":
			ahead(time.Duration(st.Wait) * time.Second)
			if st.Wait >= 30 {
				// rebuild the work so that the block carries the current time
				ahead(0)
				mn.Stop()
				time.Sleep(100 * time.Millisecond)
				ahead(0)
				mn.Start(coinbase)
				time.Sleep(100 * time.Millisecond)
			}
			before := M.BC.CurrentBlock().NumberU64()
			select {
			case eng.gate <- struct{}{}:
			case <-time.After(5 * time.Second):
				col.Inc("probe_no_sealer_waiting")
				continue
			}
			for w := 0; w < 100 && M.BC.CurrentBlock().NumberU64() == before; w++ {
				time.Sleep(50 * time.Millisecond)
			}
			if M.BC.CurrentBlock().NumberU64() == before {
				col.Inc("probe_seal_result_discarded")
				continue
			}
			col.Inc("blocks_mined")
			if !importOwn(i) {
				return vs
			}
		case "race":
			ahead(time.Duration(st.Wait) * time.Second)
			if st.Wait >= 30 {
				ahead(0)
				mn.Stop()
				time.Sleep(100 * time.Millisecond)
				ahead(0)
				mn.Start(coinbase)
				time.Sleep(100 * time.Millisecond)
			}
			head := M.BC.CurrentBlock()
			<-hookMu
			holdNext = true
			hookMu <- struct{}{}
			select {
			case eng.gate <- struct{}{}:
			case <-time.After(5 * time.Second):
				col.Inc("probe_no_sealer_waiting")
			}
			var minedHash common.Hash
			select {
			case minedHash = <-parked:
			case <-time.After(5 * time.Second):
			}
			<-hookMu
			holdNext = false
			hookMu <- struct{}{}
			if minedHash == (common.Hash{}) {
				select {
				case minedHash = <-parked: // it arrived just as the wait ran out
				default:
				}
			}
			if minedHash == (common.Hash{}) {
				col.Inc("probe_seal_result_discarded")
				continue
			}
			// the mined block's write is parked in front of the chain mutex; a competing block on
			// the same parent arrives from the network and is imported meanwhile
			gap := int64(st.Depth)
			if gap < 1 {
				gap = 1
			}
			blocks, _ := core.GenerateChain(M.BC.GetContext(), u.Cfg, head, u.Engine, M.Disk, 1, func(k int, g *core.BlockGen) {
				g.SetCoinbase(u.Addrs[1%len(u.Addrs)])
				g.SetExtra([]byte(fmt.Sprintf("race%d", i)))
				g.OffsetTime(gap - 240)
			})
			sib := blocks[0]
			if sib.Time().Int64() > time.Now().Unix() {
				time.Sleep(time.Until(time.Unix(sib.Time().Int64(), 0)) + time.Second)
			}
			var ierr error
			guarded(func() {
				_, ierr = M.BC.InsertChain(types.Blocks{types.NewBlockWithHeader(sib.Header()).WithBody(sib.Transactions(), sib.Uncles())})
			})
			time.Sleep(100 * time.Millisecond)
			mid := M.BC.CurrentBlock()
			midTD := M.BC.GetTd(mid.Hash(), mid.NumberU64())
			release <- struct{}{}
			time.Sleep(500 * time.Millisecond)
			col.Inc("fault_import_overlaps_the_write_of_a_mined_block")
			if ierr != nil || mid.Hash() != sib.Hash() {
				col.Inc("probe_race_sibling_not_adopted")
				if !importOwn(i) {
					return vs
				}
				continue
			}
			tdM, tdS := M.BC.GetTd(minedHash, head.NumberU64()+1), M.BC.GetTd(sib.Hash(), sib.NumberU64())
			now := M.BC.CurrentBlock()
			nowTD := M.BC.GetTd(now.Hash(), now.NumberU64())
			if tdM == nil {
				col.Inc("probe_race_mined_block_not_stored")
			} else {
				want := tdS
				if tdM.Cmp(tdS) > 0 {
					want = tdM
					col.Inc("probe_race_mined_block_heavier")
				} else {
					col.Inc("probe_race_imported_block_heavier_or_equal")
				}
				if nowTD == nil || nowTD.Cmp(want) != 0 {
					add("head-not-heaviest/mined-block-written-during-an-import", i, "the node's miner found block %x (#%d, td %v) while block %x of the same height (td %v) was being imported; afterwards the head is %x with td %v, the heavier of the two has td %v", minedHash[:4], head.NumberU64()+1, tdM, sib.Hash().Bytes()[:4], tdS, now.Hash().Bytes()[:4], nowTD, want)
					return vs
				}
				if nowTD.Cmp(midTD) < 0 {
					add("head-td-decreased", i, "head td went from %v to %v when the mined block was written after the import", midTD, nowTD)
					return vs
				}
			}
			// the importer follows whatever is canonical on the miner node now
			if imported > head.NumberU64() {
				imported = head.NumberU64()
			}
			if I.BC.CurrentBlock().NumberU64() > head.NumberU64() && I.BC.GetBlockByNumber(head.NumberU64()+1) != nil && I.BC.GetBlockByNumber(head.NumberU64()+1).Hash() != now.Hash() {
				imported = head.NumberU64()
			}
			if !importOwn(i) {
				return vs
			}
		case "sibling":
			// a competing branch from elsewhere, forking off Depth blocks below the head and
			// delivered block by block: its first blocks are side blocks (uncle candidates for
			// the worker), a later one may overtake - a reorganisation under the miner's feet
			// that turns former candidates into canonical ancestors
			head := M.BC.CurrentBlock()
			depth := st.Depth
			if depth < 1 {
				depth = 1
			}
			if uint64(depth) > head.NumberU64() {
				depth = int(head.NumberU64())
			}
			if depth == 0 {
				continue
			}
			parent := head
			for k := 0; k < depth; k++ {
				parent = M.BC.GetBlock(parent.ParentHash(), parent.NumberU64()-1)
			}
			n := depth + st.Extra
			blocks, _ := core.GenerateChain(M.BC.GetContext(), u.Cfg, parent, u.Engine, M.Disk, n, func(k int, g *core.BlockGen) {
				g.SetCoinbase(u.Addrs[1%len(u.Addrs)])
				g.SetExtra([]byte(fmt.Sprintf("sib%d", i)))
				if k == 0 {
					g.OffsetTime(int64(st.Wait) - 240)
				} else {
					g.OffsetTime(1 - 240)
				}
			})
			reorged := false
			for _, b := range blocks {
				if b.Time().Int64() > time.Now().Unix() {
					time.Sleep(time.Until(time.Unix(b.Time().Int64(), 0)) + time.Second)
				}
				guarded(func() {
					M.BC.InsertChain(types.Blocks{types.NewBlockWithHeader(b.Header()).WithBody(b.Transactions(), b.Uncles())})
				})
				col.Inc("fault_competing_block_delivered")
				time.Sleep(200 * time.Millisecond)
				if M.BC.CurrentBlock().Hash() == b.Hash() {
					reorged = true
				}
			}
			if reorged {
				col.Inc("probe_reorg_under_the_miner")
				if depth > 1 {
					col.Inc("probe_side_blocks_became_canonical_under_the_miner")
				}
				// the importer follows the miner node's canonical chain
				imported = parent.NumberU64()
				if imported > I.BC.CurrentBlock().NumberU64() {
					imported = I.BC.CurrentBlock().NumberU64()
				}
				if !importOwn(i) {
					return vs
				}
			}
		}
	}
	kernel.SetNonTrivial()
	return vs
}
