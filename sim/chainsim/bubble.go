package chainsim

import (
	"fmt"
	"runtime/debug"
	"strings"
	"testing"
	"testing/synctest"
)

// LastBubbleNote records why the previous bubble ended abnormally (benign
// teardown deadlock notes only; anything else is re-panicked).
var LastBubbleNote string

// Bubble runs f inside a synctest bubble (fake clock, quiescence detection).
// The end-of-bubble "blocked goroutines remain" panic is recovered: it only
// says that some retired goroutine of a stopped node is still parked.
func Bubble(t *testing.T, f func()) {
	LastBubbleNote = ""
	defer func() {
		if r := recover(); r != nil {
			msg := fmt.Sprint(r)
			if strings.Contains(msg, "deadlock") || strings.Contains(msg, "blocked goroutines") {
				LastBubbleNote = msg
				return
			}
			panic(r)
		}
	}()
	var inner any
	var stack []byte
	synctest.Test(t, func(t *testing.T) {
		defer func() {
			if r := recover(); r != nil {
				inner, stack = r, debug.Stack()
			}
		}()
		f()
	})
	if inner != nil {
		panic(fmt.Sprintf("%v\n%s", inner, stack))
	}
}
