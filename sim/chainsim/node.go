package chainsim

import (
	"context"
	"errors"
	"fmt"
	"math/big"
	"runtime/debug"
	"sync"
	"time"

	"gitlab.com/aquachain/aquachain/aquadb"
	"gitlab.com/aquachain/aquachain/common"
	"gitlab.com/aquachain/aquachain/common/verifhook"
	"gitlab.com/aquachain/aquachain/core"
	"gitlab.com/aquachain/aquachain/core/state"
	"gitlab.com/aquachain/aquachain/core/types"
	"gitlab.com/aquachain/aquachain/core/vm"
	"gitlab.com/aquachain/aquachain/rlp"
	"gitlab.com/aquachain/aquachain/trie"
	"verifsim/kernel"
	"verifsim/simdisk"
)

// NodeCfg is the per-node profile knob set.
type NodeCfg struct {
	Archive       bool  `json:"archive"`
	TrieNodeLimit int   `json:"trie_node_limit"` // MB; 0 = flush-eligible by size always
	TrieTimeNS    int64 `json:"trie_time_ns"`    // -1 = flush-eligible by time always (gcproc 0 > -1)
	Scale         int   `json:"scale"`           // SimDB ValueSize scale
}

func (c NodeCfg) Cache() *core.CacheConfig {
	return &core.CacheConfig{Disabled: c.Archive, TrieNodeLimit: c.TrieNodeLimit, TrieTimeLimit: time.Duration(c.TrieTimeNS)}
}

// Node is one simulated node: the real core.BlockChain on a simulated disk.
type Node struct {
	U    *Universe
	Cfg  NodeCfg
	Disk *simdisk.Disk
	BC   *core.BlockChain
	Died string // set when a write failure ended in log.Crit ("process died")
}

// Simulated process death. A failed direct write ends in log.Crit, i.e. the
// real process exits at that write. In simulation the calling goroutine is
// parked at that point ("the process died here"): the harness inspects the
// disk as the crash left it, then detaches the disk (later writes go nowhere)
// and lets the goroutine run on so that it releases its locks and the node can
// be stopped and collected. Nothing it does after death is observed.
type critEvent struct {
	msg  string
	gate chan struct{}
}

var (
	critMu     sync.Mutex
	critNotify chan *critEvent // created per run, inside the bubble
	critParked []*critEvent
)

// ResetCrit must be called at the start of every run, inside the bubble.
func ResetCrit() {
	critMu.Lock()
	critNotify = make(chan *critEvent, 64)
	critParked = nil
	critMu.Unlock()
}

func init() {
	verifhook.CritFn = func(msg string) bool {
		ev := &critEvent{msg: msg, gate: make(chan struct{})}
		critMu.Lock()
		ch := critNotify
		critParked = append(critParked, ev)
		critMu.Unlock()
		if ch != nil {
			select {
			case ch <- ev:
			default:
			}
		}
		<-ev.gate
		return true
	}
}

// ReleaseDead lets every goroutine parked in a simulated death run on (call
// only after detaching the disks they write to).
func ReleaseDead() {
	critMu.Lock()
	evs := critParked
	critParked = nil
	critMu.Unlock()
	for _, ev := range evs {
		close(ev.gate)
	}
}

type call struct {
	done     chan struct{}
	panicked string
}

// guarded runs f on its own goroutine. It returns when f has finished, has
// panicked (recovered) or has been parked by a simulated process death; in the
// last case pending() stays non-nil until Reap.
func guarded(f func()) (died string, panicked string) {
	c := &call{done: make(chan struct{})}
	critMu.Lock()
	ch := critNotify
	critMu.Unlock()
	go func() {
		defer close(c.done)
		defer func() {
			if r := recover(); r != nil {
				c.panicked = fmt.Sprintf("%v\n%s", r, debug.Stack())
			}
		}()
		f()
	}()
	select {
	case <-c.done:
		return "", c.panicked
	case ev := <-ch:
		zombies = append(zombies, c)
		return ev.msg, ""
	}
}

var zombies []*call

// Reap detaches the given disks, lets dead goroutines run on and waits for
// them, so that the node can be stopped afterwards.
func Reap(disks ...*simdisk.Disk) {
	for _, d := range disks {
		d.Detach()
	}
	for len(zombies) > 0 {
		ReleaseDead()
		z := zombies[0]
		select {
		case <-z.done:
			zombies = zombies[1:]
		case ev := <-critNotify: // died again on a later write: keep releasing
			_ = ev
		}
	}
	ReleaseDead()
}

// NewDisk creates a disk holding the committed genesis; the write log starts
// after genesis initialisation (the property is about import, reorg, shutdown).
func NewDisk(u *Universe, scale int) *simdisk.Disk {
	boot := simdisk.New()
	u.Genesis.MustCommit(boot)
	d := simdisk.FromImage(boot.Snapshot())
	if scale > 0 {
		d.Scale = scale
	}
	return d
}

// OpenChain opens the real BlockChain on any database.
func OpenChain(u *Universe, db aquadb.Database, cfg NodeCfg) (bc *core.BlockChain, err error, panicked string) {
	var died string
	died, panicked = guarded(func() {
		bc, err = core.NewBlockChain(context.Background(), db, cfg.Cache(), u.Cfg, u.Engine, vm.Config{})
	})
	if died != "" {
		// a write failed fatally while opening: the process died again
		bc, err = nil, fmt.Errorf("%w: %s", ErrDiedOpening, died)
	}
	return
}

// ErrDiedOpening reports that a (failing) write during NewBlockChain ended in log.Crit.
var ErrDiedOpening = errors.New("process died while opening the chain")

func NewNode(u *Universe, cfg NodeCfg) (*Node, error) {
	n := &Node{U: u, Cfg: cfg, Disk: NewDisk(u, cfg.Scale)}
	bc, err, p := OpenChain(u, n.Disk, cfg)
	if p != "" {
		return nil, fmt.Errorf("panic opening fresh chain: %s", p)
	}
	if err != nil {
		return nil, err
	}
	n.BC = bc
	u.nodes = append(u.nodes, n)
	return n, nil
}

// Insert feeds a batch of universe blocks (by id) to InsertChain.
func (n *Node) Insert(ids []int) (idx int, err error, died, panicked string) {
	blocks := make(types.Blocks, len(ids))
	for i, id := range ids {
		// a fresh copy per delivery: blocks cache hashes/versions internally
		b := n.U.Blocks[id]
		blocks[i] = types.NewBlockWithHeader(b.Header()).WithBody(b.Transactions(), b.Uncles())
	}
	died, panicked = guarded(func() { idx, err = n.BC.InsertChain(blocks) })
	if died != "" {
		n.Died = died
	}
	return
}

// InsertHeaders feeds headers to InsertHeaderChain.
func (n *Node) InsertHeaders(ids []int) (idx int, err error, died, panicked string) {
	hs := make([]*types.Header, len(ids))
	for i, id := range ids {
		hs[i] = n.U.Blocks[id].Header()
		hs[i].Version = n.U.Cfg.GetBlockVersion(hs[i].Number)
	}
	died, panicked = guarded(func() { idx, err = n.BC.InsertHeaderChain(hs, 1) })
	if died != "" {
		n.Died = died
	}
	return
}

// InsertReceipts feeds bodies and receipts to InsertReceiptChain the way a fast-syncing node
// gets them from a peer: the receipts carry their consensus fields only (they went through
// the wire encoding), everything else the node derives itself.
func (n *Node) InsertReceipts(ids []int) (idx int, err error, died, panicked string) {
	idx, err, died, panicked = insertReceipts(n.U, n.BC, ids)
	if died != "" {
		n.Died = died
	}
	return
}

func insertReceipts(u *Universe, bc *core.BlockChain, ids []int) (idx int, err error, died, panicked string) {
	blocks := make(types.Blocks, len(ids))
	receipts := make([]types.Receipts, len(ids))
	for i, id := range ids {
		b := u.Blocks[id]
		blocks[i] = types.NewBlockWithHeader(b.Header()).WithBody(b.Transactions(), b.Uncles())
		for _, r := range u.Receipts[id] {
			enc, e := rlp.EncodeToBytes(r)
			if e != nil {
				return i, e, "", ""
			}
			wire := new(types.Receipt)
			if e := rlp.DecodeBytes(enc, wire); e != nil {
				return i, e, "", ""
			}
			receipts[i] = append(receipts[i], wire)
		}
	}
	died, panicked = guarded(func() { idx, err = bc.InsertReceiptChain(blocks, receipts) })
	return
}

func insertHeaders(u *Universe, bc *core.BlockChain, ids []int) (idx int, err error, died, panicked string) {
	hs := make([]*types.Header, len(ids))
	for i, id := range ids {
		hs[i] = u.Blocks[id].Header()
		hs[i].Version = u.Cfg.GetBlockVersion(hs[i].Number)
	}
	died, panicked = guarded(func() { idx, err = bc.InsertHeaderChain(hs, 1) })
	return
}

// SyncState downloads the state of block id with the real state-sync scheduler: the oracle
// node's database answers the scheduler's requests, in batches and in an order drawn from
// seed; then the block becomes the node's head (the pivot of a fast sync).
func (n *Node) SyncState(id int, seed uint64) (fetched int, err error, died, panicked string) {
	fetched, err, died, panicked = syncState(n.U, n.BC, n.Disk, id, seed)
	if died != "" {
		n.Died = died
	}
	return
}

func syncState(u *Universe, bc *core.BlockChain, db aquadb.Database, id int, seed uint64) (fetched int, err error, died, panicked string) {
	b := u.Blocks[id]
	rng := kernel.NewRNG(seed)
	died, panicked = guarded(func() {
		sched := state.NewStateSync(b.Root(), db)
		for round := 0; round < 100000; round++ {
			missing := sched.Missing(rng.Range(1, 24))
			if len(missing) == 0 {
				break
			}
			for i := len(missing) - 1; i > 0; i-- {
				j := rng.Intn(i + 1)
				missing[i], missing[j] = missing[j], missing[i]
			}
			results := make([]trie.SyncResult, 0, len(missing))
			for _, h := range missing {
				data, e := u.ODB.Get(h[:])
				if e != nil {
					err = fmt.Errorf("the oracle node lacks state entry %x: %v", h[:4], e)
					return
				}
				results = append(results, trie.SyncResult{Hash: h, Data: data})
			}
			if _, _, e := sched.Process(results); e != nil {
				err = fmt.Errorf("state sync refused a correct answer: %v", e)
				return
			}
			if _, e := sched.Commit(db); e != nil {
				err = e
				return
			}
			fetched += len(results)
		}
		if sched.Pending() > 0 {
			err = fmt.Errorf("state sync still has %d entries pending with nothing left to request", sched.Pending())
			return
		}
		err = bc.FastSyncCommitHead(b.Hash())
	})
	return
}

func (n *Node) SetHead(num uint64) (err error, died, panicked string) {
	died, panicked = guarded(func() { err = n.BC.SetHead(num) })
	if died != "" {
		n.Died = died
	}
	return
}

// Stop stops the chain (flushes the pruning node's recent tries).
func (n *Node) Stop() (died, panicked string) {
	died, panicked = guarded(func() { n.BC.Stop() })
	if died != "" {
		n.Died = died
	}
	return
}

// Restart is a clean stop followed by a fresh BlockChain on the same disk.
func (n *Node) Restart() error {
	if d, p := n.Stop(); d != "" || p != "" {
		return fmt.Errorf("stop failed: died=%q panic=%q", d, p)
	}
	bc, err, p := OpenChain(n.U, n.Disk, n.Cfg)
	if p != "" {
		return fmt.Errorf("panic reopening chain: %s", p)
	}
	if err != nil {
		return err
	}
	n.BC = bc
	return nil
}

// HeadID returns the universe id of the node's current block head (-1 unknown).
func (n *Node) HeadID() int {
	if id, ok := n.U.ByHash[n.BC.CurrentBlock().Hash()]; ok {
		return id
	}
	return -1
}

func (n *Node) HeadTD() *big.Int {
	b := n.BC.CurrentBlock()
	return n.BC.GetTd(b.Hash(), b.NumberU64())
}

// SettleTime advances the fake clock a little so that goroutines retired by
// Stop (and the fire-and-forget goroutines of a reorg) finish.
func SettleTime(d time.Duration) { time.Sleep(d) }

// canonicalDigest hashes the canonical number->hash index up to limit.
func canonicalDigest(db core.DatabaseReader, limit uint64) common.Hash {
	var buf []byte
	for i := uint64(0); i <= limit; i++ {
		h := core.GetCanonicalHash(db, i)
		buf = append(buf, h[:]...)
	}
	return common.BytesToHash(keccak(buf))
}
