package chainsim

import (
	"strings"
	"time"

	"verifsim/kernel"
)

// Future-block histories (C02, the clock clause of header acceptance at the level of the chain).
//
// The universe's genesis lies next to the bubble's clock (Recipe.Base), so blocks are handed to a
// node before, around and after the moment the clock makes them acceptable. The node's rules:
// a block more than 15 s ahead of the clock is not valid yet; InsertChain parks it (no error) if it
// is at most 30 s ahead, refuses the delivery at that block otherwise; a parked block (and parked
// descendants) is imported by the chain's own 5 s timer once the clock has caught up.
//
// Model per node: accepted (as everywhere), queued (id -> when parked). Judged at every step:
//   safety   - a block whose timestamp is more than 15 s ahead of the clock is never stored as an
//              imported block, let alone the head (future-block-imported-early);
//   refusal  - a delivery may fail only at a block that is not valid by the clock yet (the node
//              parks up to a horizon of its choosing and refuses beyond) or whose parent it does not
//              hold; a block valid by the clock with an imported parent is never refused
//              (valid-block-rejected), a block without a parent never swallowed (unexpected-import-result);
//   liveness - a parked block whose parent is imported, whose timestamp is at most 9 s ahead of the
//              clock and which was parked more than 5.5 s ago (so one timer tick at which it was
//              acceptable has certainly fired) is imported (queued-future-block-not-imported);
// and the ordinary C02 invariants hold over the accepted set at every step (the head is a heaviest
// accepted block: a parked block that became acceptable competes like any other).
const (
	allowedFuture = 15 // seconds: the header rule
)

func (c *chainRun) future() bool { return c.p.Recipe.Base != 0 }

// settleFuture moves parked blocks the node's timer has imported into the accepted set and judges
// the safety and liveness clauses for one node.
func (c *chainRun) settleFuture(ni, step int) {
	if !c.future() || c.queued == nil || c.nodes[ni].BC == nil {
		return
	}
	u, n := c.u, c.nodes[ni]
	now := time.Now()
	nowS := now.Unix()
	for id := 1; id < len(u.Blocks); id++ { // creation order: parents first
		q, parked := c.queued[ni][id]
		if !parked {
			continue
		}
		b := u.Blocks[id]
		t := b.Time().Int64()
		if n.BC.HasBlock(b.Hash(), b.NumberU64()) {
			if t > nowS+allowedFuture {
				c.add("future-block-imported-early", step, "node %d stores parked block id %d (#%d, time %d) while its clock reads %d: %d s ahead, the rule allows %d",
					ni, id, b.NumberU64(), t, nowS, t-nowS, allowedFuture)
				return
			}
			if c.accepted[ni][u.Parent[id]] {
				c.accepted[ni][id] = true
			}
			delete(c.queued[ni], id)
			c.col.Inc("probe_parked_block_imported_by_the_timer")
			continue
		}
		if c.accepted[ni][u.Parent[id]] && now.Sub(q) > 5500*time.Millisecond && t <= nowS+allowedFuture-6 {
			c.add("queued-future-block-not-imported", step, "node %d: block id %d (#%d, time %d) was parked %v ago, its parent is imported and the clock reads %d (block is %d s ahead at most), yet the node has not imported it",
				ni, id, b.NumberU64(), t, now.Sub(q), nowS, t-nowS)
			return
		}
	}
}

// applyFutureInsert is the "insert" step of a future-block history.
func (c *chainRun) applyFutureInsert(i int, op Op) {
	u, ni, n := c.u, op.Node, c.nodes[op.Node]
	if !contiguous(u, op.Blocks) || len(op.Blocks) == 0 {
		c.col.Inc("future_noncontiguous_delivery_skipped")
		return
	}
	now := time.Now()
	nowS := now.Unix()
	const (
		stKnown = iota
		stAccept
		stPark
	)
	status := make([]int, len(op.Blocks))
	orphanAt := -1 // first block whose parent this node neither holds nor has parked: must be refused
	for j, id := range op.Blocks {
		if c.accepted[ni][id] {
			status[j] = stKnown
			continue
		}
		t := u.Blocks[id].Time().Int64()
		parent := u.Parent[id]
		pAcc := c.accepted[ni][parent]
		_, pParked := c.queued[ni][parent]
		if j > 0 {
			pAcc = pAcc || status[j-1] == stAccept || status[j-1] == stKnown
			pParked = status[j-1] == stPark
		}
		switch {
		case pAcc && t <= nowS+allowedFuture:
			status[j] = stAccept
		case pAcc || pParked: // not valid yet: the node may park it or refuse the delivery here, never store it
			status[j] = stPark
		default:
			orphanAt = j
		}
		if orphanAt >= 0 {
			break
		}
	}
	idx, err, died, pan := n.Insert(op.Blocks)
	if pan != "" || died != "" {
		c.add("import-panic", i, "InsertChain died=%q panic=%s", died, firstLines(pan, 14))
		return
	}
	c.col.Add("op_insert_blocks", int64(len(op.Blocks)))
	limit := len(op.Blocks)
	if err != nil {
		if idx < 0 || idx >= len(op.Blocks) || (orphanAt >= 0 && idx > orphanAt) {
			c.add("unexpected-import-result", i, "node %d (clock %d): InsertChain(%v) returned (%d, %v); the model expects a refusal at index %d at the latest (parent unknown to the node)", ni, nowS, op.Blocks, idx, err, orphanAt)
			return
		}
		if idx != orphanAt && status[idx] != stPark {
			c.add("valid-block-rejected", i, "node %d (clock %d): InsertChain(%v) failed at index %d (id %d, time %d): %v; that block is valid by the clock and its parent is imported",
				ni, nowS, op.Blocks, idx, op.Blocks[idx], u.Blocks[op.Blocks[idx]].Time(), err)
			return
		}
		limit = idx
		if idx == orphanAt {
			c.col.Inc("probe_delivery_refused_unknown_ancestor")
		} else if strings.Contains(err.Error(), "future block") {
			c.col.Inc("probe_delivery_refused_beyond_the_parking_horizon")
		} else {
			c.col.Inc("probe_delivery_refused_behind_a_parked_block")
		}
	} else if orphanAt >= 0 {
		bad := op.Blocks[orphanAt]
		c.add("unexpected-import-result", i, "node %d (clock %d): InsertChain(%v) returned no error although the parent of id %d (index %d) was never accepted or parked", ni, nowS, op.Blocks, bad, orphanAt)
		return
	}
	for j, id := range op.Blocks[:limit] {
		b := u.Blocks[id]
		has := n.BC.HasBlock(b.Hash(), b.NumberU64())
		switch status[j] {
		case stAccept:
			if !has {
				c.add("valid-block-rejected", i, "node %d (clock %d): block id %d (time %d, not ahead of the rule) is not stored after InsertChain(%v) returned no error", ni, nowS, id, b.Time(), op.Blocks)
				return
			}
			c.accepted[ni][id] = true
			delete(c.queued[ni], id)
		case stPark:
			if has {
				c.add("future-block-imported-early", i, "node %d imported block id %d (#%d, time %d) at once while its clock reads %d (%d s ahead, the rule allows %d) or while its parent was not imported",
					ni, id, b.NumberU64(), b.Time(), nowS, b.Time().Int64()-nowS, allowedFuture)
				return
			}
			if _, already := c.queued[ni][id]; !already {
				c.queued[ni][id] = now
			}
			c.col.Inc("probe_block_parked_as_future")
		}
	}
}

// GenC02Future draws a future-block history: a small tree whose timestamps straddle the clock,
// delivered in parent-closed order with clock advances in between; at the end the clock passes
// every timestamp and everything is delivered once more (so the ordinary convergence clause applies).
func GenC02Future(rng *kernel.RNG, env *kernel.Env, k int) any {
	p := &Plan{FailAt: -1, GoMaxProcs: 1}
	o := GenOpts{MinMain: 4, MaxMain: 12, MaxForks: 2, MaxTx: 1, Uncles: false, ForkModes: []string{"nohf", "allhf", "staged", "random"}}
	p.Recipe = GenRecipe(rng, o)
	r := &p.Recipe
	gaps := []int64{1, 2, 4, 7, 10, 14, 16, 25, 40}
	ts := make([]int64, len(r.Blocks)+1)
	for i := range r.Blocks {
		r.Blocks[i].Gap = gaps[rng.Intn(len(gaps))]
		r.Blocks[i].Uncles = nil
		ts[i+1] = ts[r.Blocks[i].Parent] + r.Blocks[i].Gap
	}
	// one block is put next to the clock: between 10 s behind and 45 s ahead of it
	x := rng.Range(1, len(r.Blocks))
	r.Base = int64(rng.Range(-10, 45)) - ts[x]
	if r.Base == 0 {
		r.Base = 1
	}
	var last int64
	for _, t := range ts {
		if t > last {
			last = t
		}
	}
	nn := rng.Range(1, 2)
	// Every advance is 1 ms more than a whole number of seconds, so the n-th observation happens n ms
	// past a whole second (n < 1000) while the chain's 5 s timer, started at a whole second or at a
	// restart, fires at the phase of that moment: no step ever coincides with a tick. Two goroutines
	// runnable at the same simulated instant would be ordered by the Go scheduler, not by the plan.
	adv := []int64{701, 2301, 4101, 5601, 8201, 11501, 16301, 31701}
	var lists [][]Op
	for i := 0; i < nn; i++ {
		p.Nodes = append(p.Nodes, genNodeCfg(rng))
		var ops []Op
		for _, op := range GenDeliveries(rng, r, i, 0.04, 0.15, rng.Range(1, 4)) {
			ops = append(ops, op)
			for rng.Bool(0.55) {
				ops = append(ops, Op{Kind: "advance", Node: i, Ms: adv[rng.Intn(len(adv))]})
			}
		}
		// the clock passes everything; then every block once more, in creation order
		ops = append(ops, Op{Kind: "advance", Node: i, Ms: (last+r.Base+60)*1000 + 1})
		for id := 1; id <= len(r.Blocks); id++ {
			ops = append(ops, Op{Kind: "insert", Node: i, Blocks: []int{id}})
		}
		lists = append(lists, ops)
	}
	p.Ops = interleave(rng, lists)
	return p
}
