package chainsim

import (
	"fmt"
	"math/big"

	"gitlab.com/aquachain/aquachain/common"
	"gitlab.com/aquachain/aquachain/core"
	"gitlab.com/aquachain/aquachain/core/types"
)

// Single-field corruptions of an otherwise valid block (C01) — a Byzantine
// sender altering a block in flight.
const (
	MutTxHash = iota
	MutUncleHash
	MutRoot
	MutReceiptHash
	MutBloom
	MutGasUsed
	MutDropTx
	MutAlterTx
	MutAddTx
	MutAddUncle
	MutDropUncle
	MutAlterTxConsistent // body altered and header tx root recomputed: only the state/receipt commitments can catch it
	MutDropTxConsistent
	MutCoinbase // changes who is paid: the state root no longer matches
	NumBlockMutations
	// blocks that contain an invalid transaction (C06), header transaction root kept consistent
	MutTxNonceHigh = iota - 1
	MutTxNonceLow
	MutTxUnaffordable
	MutTxIntrinsicLow
	MutTxGasOverBlock
	NumAllMutations
)

var MutNames = []string{"txhash", "unclehash", "root", "receipthash", "bloom", "gasused", "drop-tx", "alter-tx", "add-tx", "add-uncle", "drop-uncle", "alter-tx-consistent", "drop-tx-consistent", "coinbase",
	"tx-nonce-too-high", "tx-nonce-too-low", "tx-unaffordable", "tx-gas-below-intrinsic", "tx-gas-above-block-remainder"}

// Mutate builds the corrupted copy of block id, or nil when the mutation does
// not apply to that block.
func (u *Universe) Mutate(id, mut int, arg uint64) *types.Block {
	b := u.Blocks[id]
	h := b.Header()
	txs := append(types.Transactions{}, b.Transactions()...)
	uncles := b.Uncles()
	flip := func(x common.Hash) common.Hash { x[int(arg)%32] ^= 1 << (arg % 8); return x }
	switch mut {
	case MutTxHash:
		h.TxHash = flip(h.TxHash)
	case MutUncleHash:
		h.UncleHash = flip(h.UncleHash)
	case MutRoot:
		h.Root = flip(h.Root)
	case MutReceiptHash:
		h.ReceiptHash = flip(h.ReceiptHash)
	case MutBloom:
		h.Bloom[int(arg)%len(h.Bloom)] ^= 1 << (arg % 8)
	case MutGasUsed:
		if arg%2 == 0 || h.GasUsed == 0 {
			h.GasUsed++
		} else {
			h.GasUsed--
		}
	case MutDropTx, MutDropTxConsistent:
		if len(txs) == 0 {
			return nil
		}
		txs = txs[:len(txs)-1]
		if mut == MutDropTxConsistent {
			h.TxHash = types.DeriveSha(txs)
		}
	case MutAlterTx, MutAlterTxConsistent:
		if len(txs) == 0 {
			return nil
		}
		k := int(arg) % len(txs)
		old := txs[k]
		signer := types.MakeSigner(u.Cfg, h.Number)
		from, err := types.Sender(signer, old)
		if err != nil {
			return nil
		}
		ki := -1
		for i, a := range u.Addrs {
			if a == from {
				ki = i
			}
		}
		if ki < 0 {
			return nil
		}
		if mut == MutAlterTxConsistent {
			// only a plain transfer to another account is guaranteed to change the
			// post-state when its value changes (a self-transfer or a reverting
			// call would yield a different but perfectly valid block)
			plain := old.To() != nil && *old.To() != from && len(old.Data()) == 0
			if plain {
				plain = false
				for _, a := range u.Addrs {
					if a == *old.To() {
						plain = true
					}
				}
			}
			if !plain {
				return nil
			}
		}
		var nt *types.Transaction
		val := new(big.Int).Add(old.Value(), big.NewInt(1))
		if old.To() == nil {
			nt = types.NewContractCreation(old.Nonce(), val, old.Gas(), old.GasPrice(), old.Data())
		} else {
			nt = types.NewTransaction(old.Nonce(), *old.To(), val, old.Gas(), old.GasPrice(), old.Data())
		}
		st, err := types.SignTx(nt, signer, u.Keys[ki])
		if err != nil {
			return nil
		}
		txs[k] = st
		if mut == MutAlterTxConsistent {
			h.TxHash = types.DeriveSha(txs)
		}
	case MutAddTx:
		if len(txs) == 0 {
			return nil
		}
		txs = append(txs, txs[0])
	case MutAddUncle:
		p := u.Parent[id]
		if p <= 0 {
			return nil
		}
		uncles = append(append([]*types.Header{}, uncles...), u.Blocks[p].Header())
	case MutDropUncle:
		if len(uncles) == 0 {
			return nil
		}
		uncles = uncles[:len(uncles)-1]
	case MutCoinbase:
		h.Coinbase[int(arg)%20] ^= 1
	case MutTxNonceHigh, MutTxNonceLow, MutTxUnaffordable, MutTxIntrinsicLow, MutTxGasOverBlock:
		signer := types.MakeSigner(u.Cfg, h.Number)
		ki := int(arg) % len(u.Keys)
		from := u.Addrs[ki]
		// the sender's nonce after the block's own transactions
		pst, err := u.O.StateAt(u.Blocks[u.Parent[id]].Root())
		if err != nil {
			return nil
		}
		nonce := pst.GetNonce(from)
		for _, tx := range txs {
			if f, _ := types.Sender(signer, tx); f == from {
				nonce++
			}
		}
		to := u.Addrs[(ki+1)%len(u.Addrs)]
		val, gas := big.NewInt(1), uint64(21000)
		switch mut {
		case MutTxNonceHigh:
			nonce += 3
		case MutTxNonceLow:
			if nonce == 0 {
				return nil
			}
			nonce--
		case MutTxUnaffordable:
			val, _ = new(big.Int).SetString("2000000000000000000000000000", 10)
		case MutTxIntrinsicLow:
			gas = 20999
		case MutTxGasOverBlock:
			if len(txs) == 0 {
				return nil
			}
			gas = h.GasLimit
		}
		st, err := types.SignTx(types.NewTransaction(nonce, to, val, gas, big.NewInt(1_000_000_000), nil), signer, u.Keys[ki])
		if err != nil {
			return nil
		}
		txs = append(txs, st)
		h.TxHash = types.DeriveSha(txs)
	default:
		return nil
	}
	h.Version = u.Cfg.GetBlockVersion(h.Number)
	return types.NewBlockWithHeader(h).WithBody(txs, uncles)
}

// nodeView is what "the head and the state exactly as they were" is compared on.
type nodeView struct {
	head, header, fast common.Hash
	canon              common.Hash
	state              string
	lastBlock          common.Hash
}

func (c *chainRun) view(n *Node) nodeView {
	hb := n.BC.CurrentBlock()
	v := nodeView{head: hb.Hash(), header: n.BC.CurrentHeader().Hash(), fast: n.BC.CurrentFastBlock().Hash()}
	v.canon = canonicalDigest(n.Disk, hb.NumberU64()+8)
	v.lastBlock = core.GetHeadBlockHash(n.Disk)
	if d, err := nodeStateDigest(n, hb.Root()); err == nil {
		v.state = d
	} else {
		v.state = "ERR:" + err.Error()
	}
	return v
}

func (c *chainRun) applyMutant(i int, op Op) {
	n := c.nodes[op.Node]
	u := c.u
	if len(op.Blocks) != 1 {
		return
	}
	id := op.Blocks[0]
	if id <= 0 || id >= len(u.Blocks) || !c.accepted[op.Node][u.Parent[id]] {
		c.col.Inc("mutant_not_applicable")
		return
	}
	mb := u.Mutate(id, op.Mut, op.Arg)
	if mb == nil {
		c.col.Inc("mutant_not_applicable")
		return
	}
	if !n.BC.HasState(u.Blocks[u.Parent[id]].Root()) {
		// the parent state was pruned on this node: the block would be parked
		// unexecuted as a side block, which is not the situation the statement
		// describes ("recomputed from its body and the parent state")
		c.col.Inc("mutant_skipped_parent_state_pruned")
		return
	}
	before := c.view(n)
	var idx int
	var err error
	died, pan := guarded(func() { idx, err = n.BC.InsertChain(types.Blocks{mb}) })
	if pan != "" || died != "" {
		c.add("import-panic", i, "InsertChain(mutant %s of block id %d) died=%q panic=%s", MutNames[op.Mut], id, died, firstLines(pan, 14))
		return
	}
	c.col.Inc("fault_byzantine_block_" + MutNames[op.Mut])
	if err == nil && mb.Hash() == u.Blocks[id].Hash() && c.accepted[op.Node][id] {
		// The corruption left the header (hence the block's identity) intact and the
		// node already holds that block: the copy is ignored as known. That is a
		// rejection in effect as long as nothing changed and the stored body is
		// still the original one.
		c.col.Inc("mutant_of_known_block_ignored")
		body := n.BC.GetBody(mb.Hash())
		if body == nil || len(body.Transactions) != len(u.Blocks[id].Transactions()) || len(body.Uncles) != len(u.Blocks[id].Uncles()) {
			c.add("rejected-block-changed-node/"+MutNames[op.Mut], i, "node %d: a corrupted copy of known block id %d replaced its stored body", op.Node, id)
			return
		}
		for k, tx := range body.Transactions {
			if tx.Hash() != u.Blocks[id].Transactions()[k].Hash() {
				c.add("rejected-block-changed-node/"+MutNames[op.Mut], i, "node %d: a corrupted copy of known block id %d replaced its stored body", op.Node, id)
				return
			}
		}
		if after := c.view(n); after != before {
			c.add("rejected-block-changed-node/"+MutNames[op.Mut], i, "node %d: ignoring a corrupted copy of known block id %d changed the node: before %+v after %+v", op.Node, id, before, after)
		}
		return
	}
	if err == nil {
		c.add("corrupted-block-accepted/"+MutNames[op.Mut], i, "node %d accepted block id %d (#%d) with corruption %q (arg %d)", op.Node, id, u.Blocks[id].NumberU64(), MutNames[op.Mut], op.Arg)
		return
	}
	if idx != 0 {
		c.add("corrupted-block-wrong-index", i, "InsertChain reported index %d for a one-block batch", idx)
		return
	}
	after := c.view(n)
	if after != before {
		c.add("rejected-block-changed-node/"+MutNames[op.Mut], i, "node %d: rejecting corrupted block id %d (%s) changed the node: before %+v after %+v (err %v)", op.Node, id, MutNames[op.Mut], before, after, err)
		return
	}
	if b := n.BC.GetBlockByNumber(mb.NumberU64()); b != nil && b.Hash() == mb.Hash() && mb.Hash() != u.Blocks[id].Hash() {
		c.add("rejected-block-changed-node/"+MutNames[op.Mut], i, "rejected block became canonical at height %d", mb.NumberU64())
	}
	_ = fmt.Sprint
}
