package chainsim

import (
	"time"

	"verifsim/kernel"
)

// GenNodeCfg draws a node profile (archive or pruning, flush knobs, disk batch scale).
func GenNodeCfg(rng *kernel.RNG) NodeCfg { return genNodeCfg(rng) }

func genNodeCfg(rng *kernel.RNG) NodeCfg {
	cfg := NodeCfg{Archive: rng.Bool(0.4), Scale: []int{1, 1, 50, 2000}[rng.Intn(4)]}
	if !cfg.Archive {
		cfg.TrieNodeLimit = []int{0, 256}[rng.Intn(2)]
		cfg.TrieTimeNS = []int64{-1, 0, int64(5 * time.Minute)}[rng.Intn(3)]
	}
	return cfg
}

// interleave merges per-node op lists preserving each list's order.
func interleave(rng *kernel.RNG, lists [][]Op) []Op {
	var out []Op
	idx := make([]int, len(lists))
	for {
		var live []int
		for i := range lists {
			if idx[i] < len(lists[i]) {
				live = append(live, i)
			}
		}
		if len(live) == 0 {
			return out
		}
		k := live[rng.Intn(len(live))]
		out = append(out, lists[k][idx[k]])
		idx[k]++
	}
}

func sizeClass(rng *kernel.RNG, env *kernel.Env, k int) GenOpts {
	o := GenOpts{MinMain: 3, MaxMain: 16, MaxForks: 4, MaxTx: 4, Uncles: true, ForkModes: []string{"nohf", "allhf", "staged", "random"}}
	switch {
	case env.Thorough() && k%10 == 9:
		o.MinMain, o.MaxMain, o.MaxTx = 135, 170, 2 // crosses the 128-trie retention window
	case k%5 == 4:
		o.MinMain, o.MaxMain = 20, 45
	}
	return o
}

// GenC02 draws a fork-choice history: 1-3 nodes, each receiving every block of
// the tree in its own parent-closed order and batching.
func GenC02(rng *kernel.RNG, env *kernel.Env, k int) any {
	p := &Plan{FailAt: -1, GoMaxProcs: []int{1, 2, 4, 16}[rng.Intn(4)]}
	if rng.Intn(2) == 0 {
		p.OrderSeed = rng.Uint64() | 1
	}
	p.Recipe = GenRecipe(rng, sizeClass(rng, env, k))
	nn := rng.Range(1, 3)
	var lists [][]Op
	for i := 0; i < nn; i++ {
		p.Nodes = append(p.Nodes, genNodeCfg(rng))
		lists = append(lists, GenDeliveries(rng, &p.Recipe, i, 0.05, 0.1, rng.Range(1, 8)))
	}
	p.Ops = interleave(rng, lists)
	return p
}

// GenC03 draws InsertChain / InsertHeaderChain / SetHead / restart histories on
// FULL, HEADER-only and headers-then-blocks nodes.
func GenC03(rng *kernel.RNG, env *kernel.Env, k int) any {
	p := &Plan{FailAt: -1, GoMaxProcs: []int{1, 2, 4, 16}[rng.Intn(4)]}
	if rng.Intn(2) == 0 {
		p.OrderSeed = rng.Uint64() | 1
	}
	o := sizeClass(rng, env, k)
	if o.MaxTx < 3 {
		o.MaxTx = 3
	}
	p.Recipe = GenRecipe(rng, o)
	nn := rng.Range(1, 2)
	var lists [][]Op
	for i := 0; i < nn; i++ {
		p.Nodes = append(p.Nodes, genNodeCfg(rng))
		base := GenDeliveries(rng, &p.Recipe, i, 0.06, 0.08, rng.Range(1, 8))
		profile := rng.Intn(5) // 0,1 FULL; 2 HEADER; 3 headers-then-blocks; 4 fast sync, then FULL
		var ops []Op
		if profile == 4 {
			// header chain, bodies + receipts up to a pivot, the pivot's state, then ordinary
			// deliveries of the whole tree (with rewinds)
			ops = genFastSync(rng, &p.Recipe, i)
		}
		if profile == 3 {
			// properly separated phases on one branch (what the header-first import
			// path supports): all headers of the path to one leaf, then its blocks
			lists = append(lists, genHeaderFirst(rng, &p.Recipe, i))
			continue
		}
		for _, op := range base {
			switch {
			case op.Kind != "insert":
				ops = append(ops, op)
			case profile == 2:
				op.Kind = "headers"
				ops = append(ops, op)
			default:
				ops = append(ops, op)
			}
			// rewinds at arbitrary points, to arbitrary heights around the current one
			if rng.Bool(0.07) {
				ops = append(ops, Op{Kind: "sethead", Node: i, Num: uint64(rng.Intn(len(p.Recipe.Blocks)/2 + 2))})
			}
		}
		lists = append(lists, ops)
	}
	p.Ops = interleave(rng, lists)
	return p
}

// GenC01 draws cross-history differential runs: 2-4 nodes with different cache
// profiles import the same tree in different orders, with clean restarts,
// crashes at rest and Byzantine single-field corruptions of blocks in flight.
func GenC01(rng *kernel.RNG, env *kernel.Env, k int) any {
	p := &Plan{FailAt: -1, GoMaxProcs: []int{1, 2, 4, 16}[rng.Intn(4)]}
	if rng.Intn(2) == 0 {
		p.OrderSeed = rng.Uint64() | 1
	}
	o := sizeClass(rng, env, k)
	o.MaxTx = 8
	p.Recipe = GenRecipe(rng, o)
	if k%3 == 1 {
		// two branches off one block deploy code of different length at the same address (same
		// sender, same nonce) and each then reads that address's code size in a later block:
		// whatever a node cached while importing one branch must not leak into the other
		appendTwinDeployments(rng, &p.Recipe)
	}
	nn := rng.Range(2, 4)
	var lists [][]Op
	for i := 0; i < nn; i++ {
		cfg := genNodeCfg(rng)
		if i == 0 {
			cfg.Archive = true
		}
		if i == 1 {
			cfg.Archive = false
		}
		p.Nodes = append(p.Nodes, cfg)
		base := GenDeliveries(rng, &p.Recipe, i, 0.06, 0.1, rng.Range(1, 8))
		var ops []Op
		given := map[int]bool{0: true}
		for _, op := range base {
			// a corrupted copy of the first block of the batch arrives first
			if op.Kind == "insert" && rng.Bool(0.35) {
				ops = append(ops, Op{Kind: "mutant", Node: i, Blocks: []int{op.Blocks[0]}, Mut: rng.Intn(NumBlockMutations), Arg: uint64(rng.Intn(256))})
			}
			ops = append(ops, op)
			for _, b := range op.Blocks {
				given[b] = true
			}
			if rng.Bool(0.04) {
				ops = append(ops, Op{Kind: "crash", Node: i})
			}
			// ... or a corrupted copy of a block the node already has
			if op.Kind == "insert" && rng.Bool(0.15) {
				ops = append(ops, Op{Kind: "mutant", Node: i, Blocks: []int{op.Blocks[rng.Intn(len(op.Blocks))]}, Mut: rng.Intn(NumBlockMutations), Arg: uint64(rng.Intn(256))})
			}
		}
		lists = append(lists, ops)
	}
	p.Ops = interleave(rng, lists)
	return p
}

// genHeaderFirst: headers of the path genesis->leaf in batches, then the blocks
// of the same path in batches, possibly stopping short of the header head, with
// an optional rewind in between or afterwards.
func genHeaderFirst(rng *kernel.RNG, r *Recipe, node int) []Op {
	n := len(r.Blocks)
	hasChild := make([]bool, n+1)
	for _, b := range r.Blocks {
		hasChild[b.Parent] = true
	}
	var leaves []int
	for id := 1; id <= n; id++ {
		if !hasChild[id] {
			leaves = append(leaves, id)
		}
	}
	if len(leaves) == 0 {
		return nil
	}
	leaf := leaves[rng.Intn(len(leaves))]
	var path []int
	for id := leaf; id > 0; id = r.Blocks[id-1].Parent {
		path = append([]int{id}, path...)
	}
	split := func(kind string, ids []int) []Op {
		var ops []Op
		for len(ids) > 0 {
			k := rng.Range(1, 8)
			if k > len(ids) {
				k = len(ids)
			}
			ops = append(ops, Op{Kind: kind, Node: node, Blocks: append([]int{}, ids[:k]...)})
			ids = ids[k:]
		}
		return ops
	}
	ops := split("headers", path)
	if rng.Bool(0.15) {
		ops = append(ops, Op{Kind: "sethead", Node: node, Num: uint64(rng.Intn(len(path) + 1))})
	}
	upto := len(path)
	if rng.Bool(0.4) {
		upto = rng.Intn(len(path) + 1)
	}
	ops = append(ops, split("insert", path[:upto])...)
	if rng.Bool(0.2) {
		ops = append(ops, Op{Kind: "sethead", Node: node, Num: uint64(rng.Intn(len(path) + 1))})
	}
	if rng.Bool(0.2) {
		ops = append(ops, Op{Kind: "restart", Node: node})
	}
	return ops
}

// appendTwinDeployments adds, off the genesis block, two two-block branches: a creation
// transaction of one sender (nonce 0 on both) deploying code of different lengths, followed by a
// block whose transaction stores EXTCODESIZE of the created address.
func appendTwinDeployments(rng *kernel.RNG, r *Recipe) {
	s := rng.Intn(r.Accounts)
	a1 := uint64(rng.Intn(5))
	a2 := (a1 + 1 + uint64(rng.Intn(4))) % 5
	for bi, a := range []uint64{a1, a2} {
		base := len(r.Blocks)
		r.Blocks = append(r.Blocks, BlockRecipe{Parent: 0, Gap: []int64{7000, 9000}[bi], Coinbase: rng.Intn(r.Accounts), Extra: "twin",
			Txs: []TxRecipe{{From: s, Kind: TxCreateDirect, To: s, Price: 1_000_000_000, A: a}}})
		r.Blocks = append(r.Blocks, BlockRecipe{Parent: base + 1, Gap: 1000, Coinbase: rng.Intn(r.Accounts),
			Txs: []TxRecipe{{From: (s + 1) % r.Accounts, Kind: TxExtSize, To: s, Price: 1_000_000_000, B: 0}}})
	}
}
