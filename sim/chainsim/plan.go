package chainsim

import (
	"encoding/json"
	"fmt"
	"gitlab.com/aquachain/aquachain/common/verifhook"
	"sync/atomic"

	"verifsim/kernel"
	"verifsim/refmodel"
)

func keccak(b []byte) []byte { return refmodel.Keccak(b) }

// Op is one step of a chain-level plan.
type Op struct {
	Kind   string `json:"op"` // insert | headers | sethead | restart | crash | advance
	Node   int    `json:"node"`
	Blocks []int  `json:"blocks,omitempty"`
	Num    uint64 `json:"num,omitempty"`
	Ms     int64  `json:"ms,omitempty"`
	Mut    int    `json:"mut,omitempty"` // mutant: which single-field corruption
	Arg    uint64 `json:"arg,omitempty"`
}

// Plan is the complete, explicit description of one chain-level execution.
type Plan struct {
	Recipe Recipe    `json:"universe"`
	Nodes  []NodeCfg `json:"nodes"`
	Ops    []Op      `json:"ops"`
	// C04: one write attempt made to fail (-1 = none) and which images to check
	FailAt     int    `json:"fail_at"`
	Images     []int  `json:"images,omitempty"`     // explicit crash boundaries (replay); empty = per tier policy
	AllImages  bool   `json:"all_images,omitempty"` // enumerate every boundary
	SampleSeed uint64 `json:"sample_seed,omitempty"`
	GoMaxProcs int    `json:"gomaxprocs,omitempty"`
	// OrderSeed decides the iteration order of the node's maps whose order
	// reaches the disk (0 = bytewise ascending).
	OrderSeed uint64 `json:"order_seed,omitempty"`
}

// InstallMapOrder makes the plan's order seed the owner of those orders for
// the duration of a run; call the returned function at the end.
func InstallMapOrder(seed uint64) func() {
	if seed == 0 {
		verifhook.MapOrder = nil
		return func() {}
	}
	var calls atomic.Uint64
	verifhook.MapOrder = func(site string, n int, swap func(i, j int)) {
		rng := kernel.NewRNG(kernel.Mix(seed, kernel.HashString(site), calls.Add(1)))
		for i := n - 1; i > 0; i-- {
			swap(i, rng.Intn(i+1))
		}
	}
	return func() { verifhook.MapOrder = nil }
}

func DecodePlan(raw json.RawMessage) (any, error) {
	p := &Plan{FailAt: -1}
	if err := json.Unmarshal(raw, p); err != nil {
		return nil, err
	}
	return p, nil
}

func HashPlan(p any) uint64 {
	b, _ := json.Marshal(p)
	return kernel.HashBytes(b)
}

// GenOpts steers the recipe generator.
type GenOpts struct {
	MinMain, MaxMain int
	MaxForks         int
	MaxTx            int
	Uncles           bool
	ForkModes        []string // subset of: nohf, allhf, staged, random
}

var gapSet = []int64{1, 5, 9, 100, 179, 180, 239, 240, 1000, 5000}

func drawGap(rng *kernel.RNG, style int) int64 {
	switch style {
	case 0: // fast
		return gapSet[rng.Intn(5)]
	case 1: // slow
		return gapSet[5+rng.Intn(5)]
	case 3: // very slow
		return gapSet[8+rng.Intn(2)]
	}
	return gapSet[rng.Intn(len(gapSet))]
}

func genTxs(rng *kernel.RNG, accounts, max int) []TxRecipe {
	n := 0
	if max > 0 && rng.Bool(0.7) {
		n = rng.Range(1, max)
	}
	weights := []int{30, 12, 14, 5, 5, 5, 6, 5, 5, 4, 7, 7, 4, 3, 5, 6, 5}
	txs := make([]TxRecipe, n)
	for i := range txs {
		txs[i] = TxRecipe{From: rng.Intn(accounts), Kind: rng.Pick(weights), To: rng.Intn(accounts),
			Value: uint64(rng.Intn(3)) * uint64(rng.Range(1, 1_000_000)), Price: uint64(rng.Range(0, 3)) * 1_000_000_000,
			A: uint64(rng.Intn(20)), B: uint64(rng.Intn(20))}
	}
	return txs
}

// GenRecipe draws a universe: fork schedule, a main branch and competing
// branches whose timestamp gaps are chosen per branch ("fast"/"slow"/"mixed")
// so that shorter-but-heavier and longer-but-lighter branches occur on purpose.
func GenRecipe(rng *kernel.RNG, o GenOpts) Recipe {
	r := Recipe{ChainID: 1337, Accounts: rng.Range(3, 6), HF: map[int]uint64{}}
	mode := o.ForkModes[rng.Intn(len(o.ForkModes))]
	switch mode {
	case "nohf":
		// pre-HF1 rules on a non-mainnet chain id: no difficulty minimum
		r.GenesisDiff = uint64(rng.Range(200_000, 100_000_000))
	case "allhf":
		for hf := 1; hf <= 7; hf++ {
			r.HF[hf] = 0
		}
		if rng.Bool(0.5) {
			r.HF[8] = uint64(rng.Range(1, 12))
			if rng.Bool(0.5) {
				r.HF[9] = r.HF[8] + uint64(rng.Range(1, 10))
			}
		}
		r.GenesisDiff = uint64(rng.Range(46_039_386, 200_000_000))
	case "staged":
		h := uint64(0)
		for hf := 1; hf <= 9; hf++ {
			h += uint64(rng.Range(1, 4))
			if hf >= 8 && rng.Bool(0.4) {
				break
			}
			r.HF[hf] = h
		}
		r.GenesisDiff = uint64(rng.Range(90_000_000, 120_000_000))
		r.HF4Funded = rng.Intn(4)
	default: // random subset at random small heights, kept monotone
		h := uint64(0)
		for hf := 1; hf <= 9; hf++ {
			if rng.Bool(0.6) {
				h += uint64(rng.Intn(8))
				r.HF[hf] = h
			}
		}
		r.GenesisDiff = uint64(rng.Range(1_000_000, 150_000_000))
		r.HF4Funded = rng.Intn(3)
	}
	main := rng.Range(o.MinMain, o.MaxMain)
	type tip struct{ id, height int }
	height := map[int]int{0: 0}
	addBranch := func(from, length, style int) []int {
		ids := []int{}
		parent := from
		for i := 0; i < length; i++ {
			br := BlockRecipe{Parent: parent, Gap: drawGap(rng, style), Coinbase: rng.Intn(r.Accounts), Txs: genTxs(rng, r.Accounts, o.MaxTx)}
			if rng.Bool(0.1) {
				br.Extra = fmt.Sprintf("x%d", rng.Intn(1000))
			}
			r.Blocks = append(r.Blocks, br)
			id := len(r.Blocks)
			height[id] = height[parent] + 1
			ids = append(ids, id)
			parent = id
		}
		return ids
	}
	mainStyle := rng.Intn(3)
	shortHeavy := rng.Bool(0.3) && main >= 5
	if shortHeavy {
		mainStyle = 3 // very slow: difficulty falls as fast as the epoch allows
	}
	mainIDs := addBranch(0, main, mainStyle)
	forks := rng.Intn(o.MaxForks + 1)
	all := append([]int{0}, mainIDs...)
	if shortHeavy {
		// a fast branch that ends one or two blocks below the slow main branch
		d := rng.Range(4, 12)
		if d > main {
			d = main
		}
		length := d - 1
		if d >= 8 && rng.Bool(0.4) {
			length = d - 2
		}
		from := 0 // genesis when the whole main branch is contested
		if main-d > 0 {
			from = mainIDs[main-d-1]
		}
		ids := addBranch(from, length, 0)
		all = append(all, ids...)
	}
	for f := 0; f < forks; f++ {
		// fork point: biased to the recent half of what exists
		var from int
		if rng.Bool(0.7) {
			from = all[len(all)/2+rng.Intn(len(all)-len(all)/2)]
		} else {
			from = all[rng.Intn(len(all))]
		}
		remaining := main - height[from]
		if remaining < 1 {
			remaining = 1
		}
		// shorter, equal or longer than what it competes with
		length := remaining + rng.Range(-3, 3)
		if rng.Bool(0.3) {
			length = rng.Range(1, 4)
		}
		if length < 1 {
			length = 1
		}
		if length > o.MaxMain {
			length = o.MaxMain
		}
		style := rng.Intn(3)
		if rng.Bool(0.6) { // opposite pace to the main branch
			style = 1 - mainStyle
			if style < 0 {
				style = rng.Intn(2)
			}
		}
		ids := addBranch(from, length, style)
		// sometimes mine the same transactions on both branches
		if rng.Bool(0.5) {
			for _, id := range ids {
				for _, m := range mainIDs {
					if height[m] == height[id] && rng.Bool(0.5) {
						r.Blocks[id-1].Txs = append([]TxRecipe{}, r.Blocks[m-1].Txs...)
					}
				}
			}
		}
		all = append(all, ids...)
	}
	if o.Uncles {
		for idx := range r.Blocks {
			id := idx + 1
			if !rng.Bool(0.35) {
				continue
			}
			var cands []int
			for c := 1; c < id; c++ {
				if height[c] < height[id] && height[id]-height[c] <= 6 {
					cands = append(cands, c)
				}
			}
			for k := 0; k < 2 && len(cands) > 0; k++ {
				r.Blocks[idx].Uncles = append(r.Blocks[idx].Uncles, cands[rng.Intn(len(cands))])
			}
		}
	}
	return r
}

// GenDeliveries draws a parent-closed delivery schedule of every block of the
// recipe to one node: random batch splits, fork interleavings, duplicates and
// clean restarts.
func GenDeliveries(rng *kernel.RNG, r *Recipe, node int, restarts, dups float64, maxBatch int) []Op {
	n := len(r.Blocks)
	children := make([][]int, n+1)
	for i, b := range r.Blocks {
		children[b.Parent] = append(children[b.Parent], i+1)
	}
	delivered := make([]bool, n+1)
	delivered[0] = true
	frontier := append([]int{}, children[0]...)
	var ops []Op
	var history [][]int
	for len(frontier) > 0 {
		// strategy: mostly continue depth-first along one branch (so that long
		// competing branches arrive after each other and cause reorganisations),
		// sometimes hop to another frontier block
		fi := rng.Intn(len(frontier))
		if rng.Bool(0.6) {
			fi = len(frontier) - 1
		}
		start := frontier[fi]
		frontier = append(frontier[:fi], frontier[fi+1:]...)
		batch := []int{start}
		delivered[start] = true
		want := rng.Range(1, maxBatch)
		cur := start
		for len(batch) < want {
			ch := children[cur]
			if len(ch) == 0 {
				break
			}
			pick := ch[rng.Intn(len(ch))]
			for _, c := range ch {
				if c != pick {
					frontier = append(frontier, c)
				}
			}
			batch = append(batch, pick)
			delivered[pick] = true
			cur = pick
		}
		frontier = append(frontier, children[cur]...)
		ops = append(ops, Op{Kind: "insert", Node: node, Blocks: batch})
		history = append(history, batch)
		if rng.Bool(dups) {
			d := history[rng.Intn(len(history))]
			ops = append(ops, Op{Kind: "insert", Node: node, Blocks: append([]int{}, d...)})
		}
		if rng.Bool(restarts) {
			ops = append(ops, Op{Kind: "restart", Node: node})
		}
	}
	return ops
}

// ShrinkRecipe proposes smaller universes: drop a leaf block, drop all txs of
// a block, drop uncles. Ops are re-targeted (blocks that vanish are removed,
// ids renumbered).
func ShrinkPlan(pa any) []any {
	p := pa.(*Plan)
	var out []any
	clone := func() *Plan {
		b, _ := json.Marshal(p)
		q := &Plan{}
		json.Unmarshal(b, q)
		return q
	}
	// 0. drop every universe block no operation refers to (and that no referenced
	// block descends from), in one step
	{
		n := len(p.Recipe.Blocks)
		keep := make([]bool, n+1)
		keep[0] = true
		for _, op := range p.Ops {
			for _, b := range op.Blocks {
				for x := b; x > 0 && x <= n && !keep[x]; x = p.Recipe.Blocks[x-1].Parent {
					keep[x] = true
				}
			}
		}
		for id := 1; id <= n; id++ {
			if keep[id] {
				for _, uid := range p.Recipe.Blocks[id-1].Uncles {
					for x := uid; x > 0 && x <= n && !keep[x]; x = p.Recipe.Blocks[x-1].Parent {
						keep[x] = true
					}
				}
			}
		}
		ren := make([]int, n+1)
		next := 0
		for id := 1; id <= n; id++ {
			if keep[id] {
				next++
				ren[id] = next
			}
		}
		if next < n {
			q := clone()
			q.Recipe.Blocks = nil
			for id := 1; id <= n; id++ {
				if !keep[id] {
					continue
				}
				b := p.Recipe.Blocks[id-1]
				b.Parent = ren[b.Parent]
				var un []int
				for _, x := range b.Uncles {
					un = append(un, ren[x])
				}
				b.Uncles = un
				q.Recipe.Blocks = append(q.Recipe.Blocks, b)
			}
			for i := range q.Ops {
				for j := range q.Ops[i].Blocks {
					q.Ops[i].Blocks[j] = ren[q.Ops[i].Blocks[j]]
				}
			}
			out = append(out, q)
		}
	}
	// 0b. keep the operations of a single node only (most violations concern one node)
	{
		seen := map[int]bool{}
		for _, op := range p.Ops {
			seen[op.Node] = true
		}
		if len(seen) > 1 {
			for n := range p.Nodes {
				if !seen[n] {
					continue
				}
				q := clone()
				q.Ops = nil
				for _, op := range p.Ops {
					if op.Node == n {
						q.Ops = append(q.Ops, op)
					}
				}
				out = append(out, q)
			}
		}
	}
	// 1. drop ops (chunks then singles), from the end first
	for size := len(p.Ops) / 2; size >= 1; size /= 2 {
		for at := len(p.Ops) - size; at >= 0; at -= size {
			q := clone()
			q.Ops = append(append([]Op{}, p.Ops[:at]...), p.Ops[at+size:]...)
			out = append(out, q)
		}
	}
	// 2. drop leaf blocks of the universe
	n := len(p.Recipe.Blocks)
	hasChild := make([]bool, n+1)
	for _, b := range p.Recipe.Blocks {
		hasChild[b.Parent] = true
	}
	for id := n; id >= 1; id-- {
		if hasChild[id] {
			continue
		}
		q := clone()
		q.Recipe.Blocks = append(append([]BlockRecipe{}, p.Recipe.Blocks[:id-1]...), p.Recipe.Blocks[id:]...)
		ren := func(x int) int {
			if x > id {
				return x - 1
			}
			return x
		}
		for i := range q.Recipe.Blocks {
			q.Recipe.Blocks[i].Parent = ren(q.Recipe.Blocks[i].Parent)
			var un []int
			for _, u := range q.Recipe.Blocks[i].Uncles {
				if u != id {
					un = append(un, ren(u))
				}
			}
			q.Recipe.Blocks[i].Uncles = un
		}
		var ops []Op
		for _, op := range q.Ops {
			if len(op.Blocks) > 0 {
				var bl []int
				for _, b := range op.Blocks {
					if b != id {
						bl = append(bl, ren(b))
					}
				}
				if len(bl) == 0 {
					continue
				}
				op.Blocks = bl
			}
			ops = append(ops, op)
		}
		q.Ops = ops
		out = append(out, q)
	}
	// 3. simplify block contents
	for i := range p.Recipe.Blocks {
		if len(p.Recipe.Blocks[i].Txs) > 0 {
			q := clone()
			q.Recipe.Blocks[i].Txs = nil
			out = append(out, q)
		}
		if len(p.Recipe.Blocks[i].Uncles) > 0 {
			q := clone()
			q.Recipe.Blocks[i].Uncles = nil
			out = append(out, q)
		}
	}
	// 4. knobs to defaults
	for i := range p.Nodes {
		if p.Nodes[i].Scale > 1 {
			q := clone()
			q.Nodes[i].Scale = 1
			out = append(out, q)
		}
	}
	if len(p.Recipe.HF) > 0 {
		q := clone()
		q.Recipe.HF = map[int]uint64{}
		out = append(out, q)
	}
	return out
}
