package chainsim

import (
	"bytes"
	"errors"
	"fmt"
	"math/big"
	mrand "math/rand"
	"testing"
	"time"

	"gitlab.com/aquachain/aquachain/common"
	"gitlab.com/aquachain/aquachain/consensus/misc"
	"gitlab.com/aquachain/aquachain/core"
	"gitlab.com/aquachain/aquachain/core/state"
	"gitlab.com/aquachain/aquachain/core/types"
	"gitlab.com/aquachain/aquachain/core/vm"
	"gitlab.com/aquachain/aquachain/crypto"
	"verifsim/kernel"
	"verifsim/refmodel"
)

// ---- C05 (coins only from the reward schedule) and C06 (exact charging) -------------------

var aqua = big.NewInt(1_000_000_000_000_000_000)

// Issuance is the reward schedule of the statement, written independently:
// 1 AQUA to the miner below height 42,000,000, plus (8+u-h)/8 AQUA to each
// uncle's miner and 1/32 AQUA per uncle to the block's miner.
func Issuance(number uint64, uncleNumbers []uint64) (total *big.Int, toMiner *big.Int, toUncle []*big.Int) {
	total, toMiner = new(big.Int), new(big.Int)
	if number >= 42_000_000 {
		for range uncleNumbers {
			toUncle = append(toUncle, new(big.Int))
		}
		return
	}
	toMiner.Set(aqua)
	for _, un := range uncleNumbers {
		r := new(big.Int).SetUint64(un + 8 - number)
		r.Mul(r, aqua)
		r.Div(r, big.NewInt(8))
		toUncle = append(toUncle, r)
		total.Add(total, r)
		toMiner.Add(toMiner, new(big.Int).Div(aqua, big.NewInt(32)))
	}
	total.Add(total, toMiner)
	return
}

func intrinsicGas(data []byte, creation bool) uint64 {
	g := uint64(21000)
	if creation {
		g = 53000
	}
	for _, b := range data {
		if b == 0 {
			g += 4
		} else {
			g += 68
		}
	}
	return g
}

// sumBalances traverses a complete state (independent traversal).
func sumBalances(get refmodel.Getter, root common.Hash) (*big.Int, map[string]*refmodel.Account, error) {
	st, _, err := refmodel.StateContent(get, root.Bytes())
	if err != nil {
		return nil, nil, err
	}
	s := new(big.Int)
	for _, a := range st {
		s.Add(s, a.Balance)
	}
	return s, st, nil
}

type ledgerRun struct {
	*chainRun
	prop   string
	supply map[int]*big.Int // oracle: total supply at each block
}

func hasKind(meta []TxRecipe, kind int) bool {
	for _, m := range meta {
		if m.Kind%numTxKinds == kind {
			return true
		}
	}
	return false
}

// ExecLedger runs a chain plan under the C05 or C06 oracle set.
func ExecLedger(prop string) func(t *testing.T, pa any, col *kernel.Collector) []kernel.Violation {
	return func(t *testing.T, pa any, col *kernel.Collector) []kernel.Violation {
		p := pa.(*Plan)
		var vs []kernel.Violation
		Bubble(t, func() { vs = execLedger(prop, p, col) })
		return vs
	}
}

func execLedger(prop string, p *Plan, col *kernel.Collector) []kernel.Violation {
	simStart := time.Now() // the bubble's clock: elapsed = simulated time
	defer func() { col.AddSim(time.Since(simStart)) }()
	ResetCrit()
	defer InstallMapOrder(p.OrderSeed)()
	mrand.Seed(int64(HashPlan(p) & 0x7fffffffffffffff))
	u, err := Build(&p.Recipe)
	if err != nil {
		if errors.Is(err, ErrOracleRejected) {
			// the validator refuses a block the repository's own block builder made
			// from valid transactions: the two execute transactions differently
			return []kernel.Violation{{Class: "own-built-block-rejected", Detail: err.Error()}}
		}
		col.Inc("universe_build_failed")
		return nil
	}
	defer func() { u.Close(); SettleTime(3 * time.Second) }()
	c := &chainRun{p: p, u: u, col: col, odigest: map[int]string{}}
	l := &ledgerRun{chainRun: c, prop: prop, supply: map[int]*big.Int{}}
	col.Add("blocks_built", int64(len(u.Blocks)-1))
	// 1. the oracle history: every block of the universe, transaction by transaction
	oget := func(k []byte) ([]byte, bool) { v, err := u.ODB.Get(k); return v, err == nil }
	s0, _, err := sumBalances(oget, u.Blocks[0].Root())
	if err != nil {
		c.add("harness-genesis-state", 0, "%v", err)
		return c.vs
	}
	l.supply[0] = s0
	for id := 1; id < len(u.Blocks); id++ {
		col.Tick()
		l.replayBlock(id, oget)
		if len(c.vs) > 0 {
			return c.vs
		}
	}
	if prop == "C05" {
		l.rewardCutoff()
		if len(c.vs) > 0 {
			return c.vs
		}
	}
	// 2. every history on every node
	for _, cfg := range p.Nodes {
		n, err := NewNode(u, cfg)
		if err != nil {
			c.add("open-error", -1, "%v", err)
			return c.vs
		}
		c.nodes = append(c.nodes, n)
		c.accepted = append(c.accepted, map[int]bool{0: true})
		c.hdrOnly = append(c.hdrOnly, map[int]bool{0: true})
		c.prevTD = append(c.prevTD, nil)
	}
	for i, op := range p.Ops {
		col.Tick()
		if op.Node < 0 || op.Node >= len(c.nodes) {
			continue
		}
		c.apply(i, op)
		if len(c.vs) > 0 {
			return c.vs
		}
		n := c.nodes[op.Node]
		if prop == "C05" {
			l.nodeSupply(i, op, n)
		} else {
			l.nodeLedger(i, n)
			if op.Kind == "receipts" && len(c.vs) == 0 {
				l.fastReceipts(i, op, n)
			}
		}
		if len(c.vs) > 0 {
			return c.vs
		}
	}
	kernel.SetNonTrivial()
	return c.vs
}

// invalidTxProbes: after the transactions of block id, on copies of the state,
// the next transaction of the block would be one that the statement says makes
// the whole block invalid - the state transition must refuse it (the error is
// what block processing and the block builder return) - or one exactly on the
// affordable side of the boundary, which must be applied.
func (l *ledgerRun) invalidTxProbes(id int, st *state.StateDB, header *types.Header, gasLeft uint64) {
	u, c := l.u, l.chainRun
	if gasLeft < 50000 {
		return
	}
	signer := types.MakeSigner(u.Cfg, header.Number)
	ki := id % len(u.Keys)
	from, to := u.Addrs[ki], u.Addrs[(ki+1)%len(u.Addrs)]
	balance, nonce := st.GetBalance(from), st.GetNonce(from)
	price := big.NewInt(1_000_000_000)
	gasCost := new(big.Int).Mul(price, big.NewInt(21000))
	if balance.Cmp(new(big.Int).Mul(gasCost, big.NewInt(4))) < 0 {
		return
	}
	spare := new(big.Int).Sub(balance, gasCost) // what is left for the value after prepaying the gas
	hugePrice := new(big.Int).Add(new(big.Int).Div(balance, big.NewInt(21000)), big.NewInt(1))
	type probe struct {
		name    string
		nonce   uint64
		value   *big.Int
		gas     uint64
		price   *big.Int
		data    []byte
		invalid bool
	}
	probes := []probe{
		{"nonce-too-high", nonce + 1, big.NewInt(1), 21000, price, nil, true},
		{"cannot-prepay-gas", nonce, big.NewInt(0), 21000, hugePrice, nil, true},
		{"cannot-afford-value-after-gas", nonce, new(big.Int).Add(spare, big.NewInt(1)), 21000, price, nil, true},
		{"value-equals-whole-balance", nonce, new(big.Int).Set(balance), 21000, price, nil, true},
		{"gas-limit-below-intrinsic", nonce, big.NewInt(1), 20999, price, nil, true},
		{"gas-limit-below-intrinsic-with-data", nonce, big.NewInt(1), 21000 + 68*3 + 4 - 1, price, []byte{1, 0, 2, 3}, true},
		{"gas-limit-above-gas-left-in-block", nonce, big.NewInt(1), gasLeft + 1, price, nil, true},
		{"exactly-affordable", nonce, new(big.Int).Set(spare), 21000, price, nil, false},
		{"gas-limit-equals-gas-left-in-block", nonce, big.NewInt(1), gasLeft, price, nil, false},
	}
	if nonce > 0 {
		probes = append(probes, probe{"nonce-too-low", nonce - 1, big.NewInt(1), 21000, price, nil, true})
	}
	for _, pr := range probes {
		if !pr.invalid && new(big.Int).Add(new(big.Int).Mul(pr.price, new(big.Int).SetUint64(pr.gas)), pr.value).Cmp(balance) > 0 {
			continue // the sender cannot prepay this much gas: not a boundary case for this state
		}
		tx, err := types.SignTx(types.NewTransaction(pr.nonce, to, pr.value, pr.gas, pr.price, pr.data), signer, u.Keys[ki])
		if err != nil {
			continue
		}
		cp := st.Copy()
		gp := new(core.GasPool).AddGas(gasLeft)
		used := new(uint64)
		cp.Prepare(tx.Hash(), common.Hash{}, 0)
		_, _, aerr := core.ApplyTransaction(u.Cfg, u.O, nil, gp, cp, header, tx, used, vm.Config{})
		l.col.Inc("invalid_tx_probes")
		switch {
		case pr.invalid && aerr == nil:
			c.add("invalid-transaction-applied/"+pr.name, id, "after block id %d: a transaction (%s: nonce %d vs account nonce %d, value %v, gas %d x price %v, balance %v, gas left in block %d) was applied instead of invalidating the block", id, pr.name, pr.nonce, nonce, pr.value, pr.gas, pr.price, balance, gasLeft)
			return
		case !pr.invalid && aerr != nil:
			c.add("affordable-transaction-refused/"+pr.name, id, "after block id %d: %s (value %v, gas %d x price %v, balance %v, gas left %d) refused: %v", id, pr.name, pr.value, pr.gas, pr.price, balance, gasLeft, aerr)
			return
		}
	}
}

// replayBlock re-executes block id on a copy of the oracle's parent state one
// transaction at a time and checks the per-transaction equations (C06) and the
// conservation of the total supply (C05).
func (l *ledgerRun) replayBlock(id int, oget refmodel.Getter) {
	u, c := l.u, l.chainRun
	b := u.Blocks[id]
	parent := u.Blocks[u.Parent[id]]
	sdb := state.NewDatabase(u.ODB)
	st, err := state.New(parent.Root(), sdb)
	if err != nil {
		c.add("harness-parent-state", id, "%v", err)
		return
	}
	header := b.Header()
	num := header.Number
	eip158 := u.Cfg.IsEIP158(num)
	byz := u.Cfg.IsByzantium(num)
	tget := func(k []byte) ([]byte, bool) {
		v, err := sdb.TrieDB().Node(common.BytesToHash(k))
		return v, err == nil && len(v) > 0
	}
	total := func() *big.Int {
		root, err := st.Commit(eip158)
		if err != nil {
			c.add("harness-commit", id, "%v", err)
			return new(big.Int)
		}
		s, _, err := sumBalances(tget, root)
		if err != nil {
			c.add("harness-traverse", id, "%v", err)
			return new(big.Int)
		}
		return s
	}
	hf4 := false
	if h := u.Cfg.GetHF(4); h != nil && h.Cmp(num) == 0 {
		misc.ApplyHardFork4(st)
		hf4 = true
		l.col.Inc("probe_hf4_block")
	}
	if h := u.Cfg.GetHF(5); h != nil && h.Cmp(num) == 0 {
		misc.ApplyHardFork5(st)
	}
	pre := total()
	if pre.Cmp(l.supply[u.Parent[id]]) > 0 || (!hf4 && pre.Cmp(l.supply[u.Parent[id]]) != 0) {
		c.add("supply-changed-before-transactions", id, "block id %d (#%v): supply %v at the parent, %v after the fork-block state mutation", id, num, l.supply[u.Parent[id]], pre)
		return
	}
	gp := new(core.GasPool).AddGas(b.GasLimit())
	usedGas := new(uint64)
	signer := types.MakeSigner(u.Cfg, num)
	cur := new(big.Int).Set(pre)
	var cum uint64
	for i, tx := range b.Transactions() {
		from, _ := types.Sender(signer, tx)
		meta := u.TxMeta[id][i]
		kind := meta.Kind % numTxKinds
		bSender, bCoin := st.GetBalance(from), st.GetBalance(header.Coinbase)
		nSender := st.GetNonce(from)
		logsBefore := len(st.Logs())
		var setSlot common.Hash
		var slotBefore common.Hash
		if kind == TxSetStorage {
			setSlot = common.BytesToHash(tx.Data()[:32])
			slotBefore = st.GetState(*tx.To(), setSlot)
		}
		oogBefore := st.GetState(u.Contracts["oog"], common.Hash{})
		var fcTarget common.Address
		var fcBefore *big.Int
		if kind == TxFundCreate {
			fcTarget = common.BytesToAddress(tx.Data()[12:32])
			fcBefore = st.GetBalance(fcTarget)
		}
		st.Prepare(tx.Hash(), b.Hash(), i)
		receipt, gas, err := core.ApplyTransaction(u.Cfg, u.O, nil, gp, st, header, tx, usedGas, vm.Config{})
		if err != nil {
			c.add("harness-replay", id, "tx %d of block id %d: %v", i, id, err)
			return
		}
		cum += gas
		// what is left in the block after this transaction is the limit minus what the receipts add up to
		if left := gp.Gas(); left != b.GasLimit()-cum {
			c.add("gas-left-in-block-wrong", id, "block id %d after tx %d (kind %d): the block's gas pool holds %d, block limit %d - cumulative gas used %d = %d", id, i, kind, left, b.GasLimit(), cum, b.GasLimit()-cum)
			return
		}
		after := total()
		if len(c.vs) > 0 {
			return
		}
		l.col.Inc("txs_replayed")
		switch kind {
		case TxDelegateSelfDestruct:
			if st.GetCodeSize(u.Contracts["sdlib"]) == 0 {
				c.add("library-destroyed-by-a-delegated-selfdestruct", id, "block id %d tx %d: a wallet ran the library's SELFDESTRUCT through DELEGATECALL/CALLCODE; afterwards the library account has no code", id, i)
				return
			}
			if st.GetCodeSize(*tx.To()) == 0 {
				l.col.Inc("probe_selfdestruct_through_delegatecall_or_callcode")
			}
		case TxBalanceArith:
			l.col.Inc("probe_balance_values_used_in_arithmetic")
		case TxFundCreate:
			// the address was paid before the creation ran; whether the creation failed, reverted
			// or succeeded, the payment stays
			if got, want := st.GetBalance(fcTarget), new(big.Int).Add(fcBefore, tx.Value()); got.Cmp(want) != 0 {
				c.add("payment-to-creation-address-lost", id, "block id %d tx %d: %x held %v, was paid %v and then used as a CREATE target (init code variant %d): holds %v, expected %v", id, i, fcTarget[:4], fcBefore, tx.Value(), meta.B%3, got, want)
				return
			}
			if st.GetCodeSize(fcTarget) > 0 {
				l.col.Inc("probe_create_succeeded_on_funded_address")
			} else if tx.Value().Sign() > 0 {
				l.col.Inc("probe_create_failed_on_funded_address")
			}
		}
		if l.prop == "C05" {
			if after.Cmp(cur) > 0 {
				c.add("transaction-created-coins", id, "block id %d tx %d (kind %d): total supply rose from %v to %v while executing a transaction", id, i, kind, cur, after)
				return
			}
			if after.Cmp(cur) < 0 && kind != TxSelfDestruct && kind != TxSelfDestructLoop && kind != TxDelegateSelfDestruct {
				c.add("transaction-destroyed-coins-without-selfdestruct", id, "block id %d tx %d (kind %d): total supply fell from %v to %v", id, i, kind, cur, after)
				return
			}
			if after.Cmp(cur) < 0 {
				l.col.Inc("probe_selfdestruct_burned_coins")
			}
		}
		cur = after
		if l.prop != "C06" {
			continue
		}
		// ---- C06: per-transaction equations ----
		failedByTemplate := kind == TxRevert || kind == TxOutOfGas || kind == TxCreateFail || kind == TxCallThenRevert
		if byz && (receipt.Status == types.ReceiptStatusFailed) != failedByTemplate {
			c.add("receipt-status-wrong", id, "block id %d tx %d kind %d: receipt status %d, template fails=%v", id, i, kind, receipt.Status, failedByTemplate)
			return
		}
		if !byz && len(receipt.PostState) != 32 {
			c.add("receipt-format-wrong", id, "pre-Byzantium receipt of block id %d tx %d carries no post-state root", id, i)
			return
		}
		if byz && len(receipt.PostState) != 0 {
			c.add("receipt-format-wrong", id, "post-Byzantium receipt of block id %d tx %d carries a post-state root", id, i)
			return
		}
		if got := st.GetNonce(from); got != nSender+1 {
			c.add("nonce-not-incremented-by-one", id, "block id %d tx %d: sender nonce %d -> %d", id, i, nSender, got)
			return
		}
		intr := intrinsicGas(tx.Data(), tx.To() == nil)
		// the gas consumed before the refund is at least the intrinsic gas; the refund
		// (storage clears, self-destructs) is capped at half of what was consumed, so
		// the reported figure is at least half the intrinsic gas in those templates
		// and at least the intrinsic gas in all others
		floor := intr
		if kind == TxSelfDestruct || kind == TxSelfDestructLoop || kind == TxDelegateSelfDestruct || kind == TxSetStorage || kind == TxExtSize {
			floor = (intr + 1) / 2
		}
		if gas < floor || gas > tx.Gas() {
			c.add("gas-used-out-of-bounds", id, "block id %d tx %d kind %d: gas used %d, intrinsic %d, limit %d", id, i, kind, gas, intr, tx.Gas())
			return
		}
		fee := new(big.Int).Mul(new(big.Int).SetUint64(gas), tx.GasPrice())
		// who else can receive value in this transaction?
		recipients := map[common.Address]bool{}
		if tx.To() != nil {
			recipients[*tx.To()] = true
		}
		switch kind {
		case TxSelfDestruct, TxDelegateSelfDestruct, TxForward, TxCallThenRevert, TxFundCreate:
			recipients[common.BytesToAddress(tx.Data()[12:32])] = true
		case TxSelfDestructLoop:
			recipients[common.BytesToAddress(tx.Data()[12:32])] = true
			recipients[common.BytesToAddress(tx.Data()[44:64])] = true
		}
		if !recipients[from] && from != header.Coinbase {
			want := new(big.Int).Sub(bSender, fee)
			if !failedByTemplate {
				want.Sub(want, tx.Value())
			}
			if got := st.GetBalance(from); got.Cmp(want) != 0 {
				c.add("sender-charged-wrongly", id, "block id %d tx %d kind %d: sender balance %v -> %v, expected %v (gas %d x price %v, value %v, failed=%v)", id, i, kind, bSender, got, want, gas, tx.GasPrice(), tx.Value(), failedByTemplate)
				return
			}
			l.col.Inc("sender_charge_checked")
		}
		if !recipients[header.Coinbase] && from != header.Coinbase {
			want := new(big.Int).Add(bCoin, fee)
			if got := st.GetBalance(header.Coinbase); got.Cmp(want) != 0 {
				c.add("coinbase-credited-wrongly", id, "block id %d tx %d: coinbase balance %v -> %v, expected +%v", id, i, bCoin, got, fee)
				return
			}
			l.col.Inc("coinbase_credit_checked")
		}
		if failedByTemplate {
			if len(st.Logs()) != logsBefore || len(receipt.Logs) != 0 {
				c.add("failed-execution-left-logs", id, "block id %d tx %d kind %d", id, i, kind)
				return
			}
			if kind == TxOutOfGas && st.GetState(u.Contracts["oog"], common.Hash{}) != oogBefore {
				c.add("failed-execution-left-storage", id, "block id %d tx %d: the out-of-gas call's SSTORE survived", id, i)
				return
			}
			if kind == TxCreateFail {
				if code := st.GetCode(crypto.CreateAddress(from, tx.Nonce())); len(code) != 0 {
					c.add("failed-creation-left-code", id, "block id %d tx %d", id, i)
					return
				}
			}
			if gas != tx.Gas() && (kind == TxOutOfGas || kind == TxCreateFail) {
				// out of gas / invalid opcode consume everything; REVERT, where the active
				// instruction set has it, hands the rest back
				c.add("failed-execution-gas-wrong", id, "block id %d tx %d kind %d: used %d of %d", id, i, kind, gas, tx.Gas())
				return
			}
			l.col.Inc("probe_failed_tx_checked")
		}
		if kind == TxSetStorage {
			// reference evaluator for the straight-line PUSH/CALLDATALOAD/SSTORE/STOP template
			newVal := common.BytesToHash(tx.Data()[32:64])
			exec := uint64(3 + 3 + 3 + 3) // two PUSH1, two CALLDATALOAD
			var refund uint64
			switch {
			case slotBefore == (common.Hash{}) && newVal != (common.Hash{}):
				exec += 20000
			case slotBefore != (common.Hash{}) && newVal == (common.Hash{}):
				exec += 5000
				refund = 15000
				l.col.Inc("probe_storage_clear_refund")
			default:
				exec += 5000
			}
			before := intr + exec
			if refund > before/2 {
				refund = before / 2
				l.col.Inc("probe_refund_cap_binding")
			}
			if want := before - refund; gas != want {
				c.add("gas-used-differs-from-reference", id, "block id %d tx %d (storage template, slot %x: %x -> %x): gas used %d, reference %d (intrinsic %d, execution %d, refund %d)", id, i, setSlot[:4], slotBefore[28:], newVal[28:], gas, want, intr, exec, refund)
				return
			}
			l.col.Inc("gas_reference_checked")
		}
		if receipt.CumulativeGasUsed != cum {
			c.add("cumulative-gas-wrong", id, "block id %d tx %d: receipt cumulative gas %d, sum so far %d", id, i, receipt.CumulativeGasUsed, cum)
			return
		}
	}
	if l.prop == "C06" {
		l.invalidTxProbes(id, st, header, b.GasLimit()-cum)
		if len(c.vs) > 0 {
			return
		}
	}
	if cum != b.GasUsed() || cum > b.GasLimit() {
		c.add("block-gas-wrong", id, "block id %d: sum of receipt gas %d, header gas used %d, gas limit %d", id, cum, b.GasUsed(), b.GasLimit())
		return
	}
	// the whole block, as the oracle node stored it
	post, _, err := sumBalances(oget, b.Root())
	if err != nil {
		c.add("harness-traverse", id, "%v", err)
		return
	}
	l.supply[id] = post
	var un []uint64
	for _, uh := range b.Uncles() {
		un = append(un, uh.Number.Uint64())
	}
	iss, _, _ := Issuance(num.Uint64(), un)
	delta := new(big.Int).Sub(post, l.supply[u.Parent[id]])
	if len(un) > 0 {
		l.col.Inc("probe_block_with_uncles")
	}
	if l.prop == "C05" {
		if delta.Cmp(iss) > 0 {
			c.add("block-created-more-than-issuance", id, "block id %d (#%v, %d uncles): supply grew by %v, scheduled issuance %v", id, num, len(un), delta, iss)
			return
		}
		if delta.Cmp(iss) != 0 && !hasKind(u.TxMeta[id], TxSelfDestruct) && !hasKind(u.TxMeta[id], TxSelfDestructLoop) && !hasKind(u.TxMeta[id], TxDelegateSelfDestruct) && !hf4 {
			c.add("block-issuance-not-exact", id, "block id %d (#%v, %d uncles, no self-destruct): supply grew by %v, scheduled issuance %v", id, num, len(un), delta, iss)
			return
		}
		// rewards alone: supply after the transactions + issuance
		if want := new(big.Int).Add(cur, iss); post.Cmp(want) != 0 {
			c.add("rewards-differ-from-schedule", id, "block id %d: supply after the transactions %v, after finalisation %v, scheduled issuance %v", id, cur, post, iss)
			return
		}
		l.col.Inc("blocks_conservation_checked")
	}
}

// rewardCutoff drives the reward function across height 42,000,000 directly
// (a chain of that length cannot be built): finalising an empty block on a
// copy of the genesis state must change the supply by exactly the issuance.
func (l *ledgerRun) rewardCutoff() {
	u, c := l.u, l.chainRun
	for _, num := range []uint64{41_999_998, 41_999_999, 42_000_000, 42_000_001} {
		for uncles := 0; uncles <= 2; uncles++ {
			sdb := state.NewDatabase(u.ODB)
			st, err := state.New(u.Blocks[0].Root(), sdb)
			if err != nil {
				return
			}
			header := &types.Header{Number: new(big.Int).SetUint64(num), Coinbase: u.Addrs[0], Time: big.NewInt(1), Difficulty: big.NewInt(1)}
			var uh []*types.Header
			var un []uint64
			for k := 0; k < uncles; k++ {
				n := num - 1 - uint64(k)
				uh = append(uh, &types.Header{Number: new(big.Int).SetUint64(n), Coinbase: u.Addrs[1%len(u.Addrs)], Time: big.NewInt(1), Difficulty: big.NewInt(1)})
				un = append(un, n)
			}
			if _, err := u.Engine.Finalize(u.O, header, st, nil, uh, nil); err != nil {
				return
			}
			root, err := st.Commit(false)
			if err != nil {
				return
			}
			s, _, err := sumBalances(func(k []byte) ([]byte, bool) {
				v, err := sdb.TrieDB().Node(common.BytesToHash(k))
				return v, err == nil && len(v) > 0
			}, root)
			if err != nil {
				return
			}
			iss, _, _ := Issuance(num, un)
			if d := new(big.Int).Sub(s, l.supply[0]); d.Cmp(iss) != 0 {
				c.add("reward-schedule-wrong-around-cutoff", 0, "finalising height %d with %d uncles changed the supply by %v, the schedule says %v", num, uncles, d, iss)
				return
			}
			l.col.Inc("probe_cutoff_heights_checked")
		}
	}
}

// nodeSupply: on every node, every imported block whose state is available has
// exactly the oracle's total supply (hence obeys the same conservation law).
func (l *ledgerRun) nodeSupply(i int, op Op, n *Node) {
	if op.Kind != "insert" {
		return
	}
	u, c := l.u, l.chainRun
	for _, id := range op.Blocks {
		if !c.accepted[op.Node][id] || !n.BC.HasState(u.Blocks[id].Root()) {
			continue
		}
		s, _, err := sumBalances(func(k []byte) ([]byte, bool) {
			v, err := n.BC.TrieNode(common.BytesToHash(k))
			return v, err == nil && len(v) > 0
		}, u.Blocks[id].Root())
		if err != nil {
			c.add("imported-state-incomplete", i, "node %d block id %d: %v", op.Node, id, err)
			return
		}
		if want := l.supply[id]; want != nil && s.Cmp(want) != 0 {
			c.add("supply-differs-between-histories", i, "node %d: total supply at block id %d is %v, on the oracle node %v", op.Node, id, s, want)
			return
		}
		l.col.Inc("node_block_supply_checked")
	}
}

// fastReceipts: what a node stores for a block it did not execute (fast sync) equals, field by
// field, what the executing oracle node stores, and obeys the per-transaction equations.
func (l *ledgerRun) fastReceipts(i int, op Op, n *Node) {
	u, c := l.u, l.chainRun
	for _, id := range op.Blocks {
		if !c.fast[op.Node][id] || c.accepted[op.Node][id] {
			continue
		}
		b := u.Blocks[id]
		got := core.GetBlockReceipts(n.Disk, b.Hash(), b.NumberU64())
		want := core.GetBlockReceipts(u.ODB, b.Hash(), b.NumberU64())
		if len(got) != len(b.Transactions()) || len(want) != len(got) {
			c.add("fast-synced-receipts-missing", i, "node %d block id %d: %d transactions, %d receipts stored (executing node %d)", op.Node, id, len(b.Transactions()), len(got), len(want))
			return
		}
		signer := types.MakeSigner(u.Cfg, b.Number())
		var sum uint64
		logIndex := uint(0)
		for ti, tx := range b.Transactions() {
			g, w := got[ti], want[ti]
			diff := ""
			switch {
			case g.Status != w.Status || !bytes.Equal(g.PostState, w.PostState):
				diff = "status / post-state"
			case g.CumulativeGasUsed != w.CumulativeGasUsed:
				diff = "cumulative gas"
			case g.GasUsed != w.GasUsed:
				diff = fmt.Sprintf("gas used (%d, executing node %d)", g.GasUsed, w.GasUsed)
			case g.TxHash != w.TxHash || g.TxHash != tx.Hash():
				diff = "transaction hash"
			case g.ContractAddress != w.ContractAddress:
				diff = "contract address"
			case g.Bloom != w.Bloom:
				diff = "bloom"
			case len(g.Logs) != len(w.Logs):
				diff = "number of logs"
			}
			if diff == "" {
				for k := range g.Logs {
					a, e := g.Logs[k], w.Logs[k]
					if a.Address != e.Address || !bytes.Equal(a.Data, e.Data) || fmt.Sprint(a.Topics) != fmt.Sprint(e.Topics) {
						diff = "log content"
					} else if a.BlockNumber != b.NumberU64() || a.BlockHash != b.Hash() || a.TxHash != tx.Hash() || a.TxIndex != uint(ti) || a.Index != logIndex {
						diff = fmt.Sprintf("log position (block #%d %x tx %x index %d log %d; expected #%d %x %x %d %d)", a.BlockNumber, a.BlockHash[:4], a.TxHash[:4], a.TxIndex, a.Index, b.NumberU64(), b.Hash().Bytes()[:4], tx.Hash().Bytes()[:4], ti, logIndex)
					}
					logIndex++
				}
			}
			if diff != "" {
				c.add("fast-synced-receipt-differs-from-executed", i, "node %d block id %d (#%d) tx %d: %s", op.Node, id, b.NumberU64(), ti, diff)
				return
			}
			if tx.To() == nil {
				from, _ := types.Sender(signer, tx)
				if wantAddr := crypto.CreateAddress(from, tx.Nonce()); g.ContractAddress != wantAddr {
					c.add("fast-synced-receipt-wrong", i, "node %d block id %d tx %d: contract address %x, sender and nonce give %x", op.Node, id, ti, g.ContractAddress[:4], wantAddr[:4])
					return
				}
			}
			if intr := intrinsicGas(tx.Data(), tx.To() == nil); g.GasUsed > tx.Gas() || g.GasUsed < (intr+1)/2 {
				c.add("gas-used-out-of-bounds", i, "node %d (fast-synced) block id %d tx %d: gas used %d, intrinsic %d, limit %d", op.Node, id, ti, g.GasUsed, intr, tx.Gas())
				return
			}
			sum += g.GasUsed
			l.col.Inc("fast_synced_receipts_checked")
		}
		if sum != b.GasUsed() {
			c.add("block-gas-differs-from-receipt-sum", i, "node %d (fast-synced) block id %d: receipts add up to %d gas, the header says %d", op.Node, id, sum, b.GasUsed())
			return
		}
		if len(b.Transactions()) >= 3 {
			l.col.Inc("probe_fast_synced_block_with_three_or_more_txs")
		}
	}
}

// nodeLedger: the exactly-once ledger. At the node's head, every simulator-owned
// account has nonce = number of its transactions on the canonical chain and the
// balance an independent fold over the canonical chain predicts.
func (l *ledgerRun) nodeLedger(i int, n *Node) {
	u, c := l.u, l.chainRun
	head := n.HeadID()
	if head < 0 {
		return
	}
	st, err := n.BC.State()
	if err != nil {
		return
	}
	path := u.Path(0, head)
	bal := map[common.Address]*big.Int{}
	nonce := map[common.Address]uint64{}
	rich, _ := new(big.Int).SetString("1000000000000000000000000000", 10)
	if u.Recipe.Balance != "" {
		rich, _ = new(big.Int).SetString(u.Recipe.Balance, 10)
	}
	for _, a := range u.Addrs {
		bal[a] = new(big.Int).Set(rich)
	}
	get := func(a common.Address) *big.Int {
		if bal[a] == nil {
			bal[a] = new(big.Int)
		}
		return bal[a]
	}
	// contract balances that matter for the self-destruct template
	sdAlive := map[common.Address]bool{}
	for k := 0; k < 4; k++ {
		a := u.Contracts[fmt.Sprintf("sd%d", k)]
		bal[a] = big.NewInt(1000 + int64(k))
		sdAlive[a] = true
	}
	for k := 0; k < 2; k++ {
		a := u.Contracts[fmt.Sprintf("dsd%d", k)]
		bal[a] = big.NewInt(2000 + int64(k))
		sdAlive[a] = true
	}
	for _, id := range path {
		b := u.Blocks[id]
		if h := u.Cfg.GetHF(4); h != nil && h.Cmp(b.Number()) == 0 {
			// the one-time de-allocation happens before the block's transactions
			for _, a := range HF4Addrs {
				bal[common.HexToAddress(a)] = new(big.Int)
			}
		}
		signer := types.MakeSigner(u.Cfg, b.Number())
		receipts := n.BC.GetReceiptsByHash(b.Hash())
		if len(receipts) != len(b.Transactions()) {
			if len(receipts) == 0 && c.sharedRoot(id) {
				// The block was adopted unexecuted because a sibling had
				// already produced its state root (the finding recorded under
				// C01/C03).  Charging is a statement about executed
				// transactions; without receipts the per-transaction gas is
				// not observable, so the fold stops here for this node.
				l.col.Inc("probe_ledger_stopped_at_unexecuted_adoption")
				return
			}
			c.add("canonical-receipts-missing", i, "block id %d has %d receipts for %d transactions", id, len(receipts), len(b.Transactions()))
			return
		}
		var prevCum uint64
		for ti, tx := range b.Transactions() {
			from, _ := types.Sender(signer, tx)
			meta := u.TxMeta[id][ti]
			kind := meta.Kind % numTxKinds
			gas := receipts[ti].CumulativeGasUsed - prevCum
			prevCum = receipts[ti].CumulativeGasUsed
			fee := new(big.Int).Mul(new(big.Int).SetUint64(gas), tx.GasPrice())
			nonce[from]++
			get(from).Sub(get(from), fee)
			get(b.Coinbase()).Add(get(b.Coinbase()), fee)
			val := tx.Value()
			switch kind {
			case TxTransfer, TxSetStorage, TxLog, TxExtSize, TxFundDealloc, TxBalanceArith:
				get(from).Sub(get(from), val)
				get(*tx.To()).Add(get(*tx.To()), val)
			case TxForward, TxFundCreate:
				to := common.BytesToAddress(tx.Data()[12:32])
				get(from).Sub(get(from), val)
				get(to).Add(get(to), val)
			case TxSelfDestruct, TxDelegateSelfDestruct:
				caddr := *tx.To()
				get(from).Sub(get(from), val)
				get(caddr).Add(get(caddr), val)
				if sdAlive[caddr] {
					ben := common.BytesToAddress(tx.Data()[12:32])
					amount := new(big.Int).Set(get(caddr))
					bal[caddr] = new(big.Int)
					if ben != caddr {
						get(ben).Add(get(ben), amount)
					}
					sdAlive[caddr] = false
				}
			case TxSelfDestructLoop:
				target := common.BytesToAddress(tx.Data()[12:32])
				ben := common.BytesToAddress(tx.Data()[44:64])
				get(from).Sub(get(from), val)
				if sdAlive[target] {
					// call 1 pays out the balance, call 2 brings the call value and pays it
					// out again, call 3 finds nothing; the contract is gone afterwards
					amount := new(big.Int).Add(get(target), val)
					bal[target] = new(big.Int)
					get(ben).Add(get(ben), amount)
					sdAlive[target] = false
				} else {
					// no code there any more: the second call is a plain transfer
					get(target).Add(get(target), val)
				}
			case TxCreate, TxRevert, TxOutOfGas, TxCallThenRevert, TxCreateFail, TxCreateDirect:
				// no value moves (value-less, or the execution fails and the transfer is rolled back)
			}
		}
		var un []uint64
		for _, uh := range b.Uncles() {
			un = append(un, uh.Number.Uint64())
		}
		_, toMiner, toUncle := Issuance(b.NumberU64(), un)
		get(b.Coinbase()).Add(get(b.Coinbase()), toMiner)
		for k, uh := range b.Uncles() {
			get(uh.Coinbase).Add(get(uh.Coinbase), toUncle[k])
		}
		if h := u.Cfg.GetHF(4); h != nil && h.Cmp(b.Number()) == 0 {
			// the listed allocation is zeroed; none of the simulator's accounts is listed
		}
	}
	for k, a := range u.Addrs {
		if got := st.GetNonce(a); got != nonce[a] {
			c.add("nonce-differs-from-ledger", i, "node head id %d: account %d nonce %d, its transactions on the canonical chain: %d", head, k, got, nonce[a])
			return
		}
		if got := st.GetBalance(a); got.Cmp(get(a)) != 0 {
			c.add("balance-differs-from-ledger", i, "node head id %d (#%d): account %d balance %v, ledger folded over the canonical chain %v (difference %v)", head, u.Blocks[head].NumberU64(), k, got, get(a), new(big.Int).Sub(got, get(a)))
			return
		}
	}
	l.col.Inc("ledger_heads_checked")
	l.col.Add("ledger_blocks_folded", int64(len(path)))
}

// GenLedger draws plans for C05/C06: contract-heavy blocks, HF4 allocations,
// every fork mode, 1-3 nodes with restarts, crashes and reorganisations.
func GenLedger(rng *kernel.RNG, env *kernel.Env, k int) any {
	p := &Plan{FailAt: -1, GoMaxProcs: []int{1, 4, 16}[rng.Intn(3)]}
	if rng.Intn(2) == 0 {
		p.OrderSeed = rng.Uint64() | 1
	}
	o := GenOpts{MinMain: 3, MaxMain: 14, MaxForks: 3, MaxTx: 10, Uncles: true, ForkModes: []string{"nohf", "allhf", "staged", "random"}}
	if k%6 == 5 {
		o.MaxMain = 30
	}
	p.Recipe = GenRecipe(rng, o)
	if p.Recipe.HF4Funded == 0 && rng.Bool(0.5) {
		p.Recipe.HF4Funded = rng.Range(1, 4)
	}
	nn := rng.Range(1, 3)
	var lists [][]Op
	for i := 0; i < nn; i++ {
		p.Nodes = append(p.Nodes, genNodeCfg(rng))
		ops := GenDeliveries(rng, &p.Recipe, i, 0.05, 0.08, rng.Range(1, 6))
		if rng.Bool(0.3) {
			// this node fast-syncs first: headers, then bodies + receipts up to a pivot, the
			// pivot's state, and full imports from there on
			ops = append(genFastSync(rng, &p.Recipe, i), ops...)
		}
		var out []Op
		for _, op := range ops {
			// C06: a block that contains one invalid transaction arrives first
			if op.Kind == "insert" && rng.Bool(0.3) {
				out = append(out, Op{Kind: "mutant", Node: i, Blocks: []int{op.Blocks[0]}, Mut: append([]int{MutGasUsed, MutGasUsed}, MutTxNonceHigh, MutTxNonceLow, MutTxUnaffordable, MutTxIntrinsicLow, MutTxGasOverBlock)[rng.Intn(7)], Arg: uint64(rng.Intn(64))})
			}
			out = append(out, op)
			if rng.Bool(0.04) {
				out = append(out, Op{Kind: "crash", Node: i})
			}
		}
		lists = append(lists, out)
	}
	p.Ops = interleave(rng, lists)
	return p
}

// genFastSync: the three stages of a fast sync along one branch of the recipe.
func genFastSync(rng *kernel.RNG, r *Recipe, node int) []Op {
	if len(r.Blocks) == 0 {
		return nil
	}
	leaf := rng.Range(1, len(r.Blocks))
	var path []int
	for id := leaf; id > 0; id = r.Blocks[id-1].Parent {
		path = append([]int{id}, path...)
	}
	split := func(kind string, ids []int) []Op {
		var ops []Op
		for len(ids) > 0 {
			k := rng.Range(1, 8)
			if k > len(ids) {
				k = len(ids)
			}
			ops = append(ops, Op{Kind: kind, Node: node, Blocks: append([]int{}, ids[:k]...)})
			ids = ids[k:]
		}
		return ops
	}
	pivot := rng.Intn(len(path))
	ops := split("headers", path)
	ops = append(ops, split("receipts", path[:pivot+1])...)
	if rng.Bool(0.15) {
		ops = append(ops, Op{Kind: "restart", Node: node})
	}
	ops = append(ops, Op{Kind: "pivot", Node: node, Blocks: []int{path[pivot]}, Arg: rng.Uint64()})
	ops = append(ops, split("insert", path[pivot+1:])...)
	return ops
}
