package chainsim

import (
	"bytes"
	"errors"
	"fmt"
	"math/big"
	mrand "math/rand"
	"os"
	"runtime"
	"testing"
	"time"

	"gitlab.com/aquachain/aquachain/common"
	"gitlab.com/aquachain/aquachain/core"
	"gitlab.com/aquachain/aquachain/core/types"
	"verifsim/kernel"
	"verifsim/refmodel"
	"verifsim/simdisk"
)

// chainRun is the shared executor of the history-level chain properties
// (C01, C02, C03): it applies the plan's operations to 1..4 nodes and
// evaluates the selected oracle set after every operation ("at rest").
type chainRun struct {
	p     *Plan
	u     *Universe
	col   *kernel.Collector
	nodes []*Node
	// per node: blocks accepted (G_n of the C02 model), header-only accepted set
	accepted  []map[int]bool
	hdrOnly   []map[int]bool
	pivoted   map[int]bool         // per node: a fast-sync pivot has been committed
	pivotHead map[int]bool         // per node: the head was set by a fast-sync pivot and no executed block has followed yet
	fast      map[int]map[int]bool // per node: blocks stored through the fast-sync path (body + receipts, not executed)
	prevTD    []*big.Int
	odigest   map[int]string
	vs        []kernel.Violation
	// which oracle sets are on
	c01, c02, c03 bool
	txIndex       map[common.Hash][]txLoc // every tx ever mined -> locations
	// per node: a SetHead fell back to an older state and left the block head
	// below the header head with the abandoned bodies still stored
	fellBack map[int]bool
	// future-block histories (future.go): per node, parked block id -> when it was parked
	queued []map[int]time.Time
}

type txLoc struct {
	block int
	index int
}

func (c *chainRun) add(class string, step int, format string, a ...any) {
	c.vs = append(c.vs, kernel.Violation{Class: class, Step: step, Detail: fmt.Sprintf(format, a...)})
}

func (c *chainRun) oracleDigest(id int) string {
	if d, ok := c.odigest[id]; ok {
		return d
	}
	st, _, err := refmodel.StateContent(func(k []byte) ([]byte, bool) {
		v, err := c.u.ODB.Get(k)
		return v, err == nil
	}, c.u.Blocks[id].Root().Bytes())
	d := "ERR:"
	if err == nil {
		d = refmodel.StateDigest(st)
	} else {
		d += err.Error()
	}
	c.odigest[id] = d
	return d
}

// nodeStateDigest reads a state through the node's trie database (memory
// layer first, then disk) with the independent traversal.
func nodeStateDigest(n *Node, root common.Hash) (string, error) {
	st, _, err := refmodel.StateContent(func(k []byte) ([]byte, bool) {
		v, err := n.BC.TrieNode(common.BytesToHash(k))
		return v, err == nil && len(v) > 0
	}, root.Bytes())
	if err != nil {
		return "", err
	}
	return refmodel.StateDigest(st), nil
}

func receiptsDigest(rs types.Receipts) string {
	var buf bytes.Buffer
	for _, r := range rs {
		fmt.Fprintf(&buf, "[%x|%d|%d|%x|", r.PostState, r.Status, r.CumulativeGasUsed, r.Bloom.Bytes())
		for _, l := range r.Logs {
			fmt.Fprintf(&buf, "(%x;%x;%x)", l.Address, l.Topics, l.Data)
		}
		buf.WriteString("]")
	}
	return fmt.Sprintf("%x", keccak(buf.Bytes()))
}

// ExecChain runs a plan under the given oracle set.
func ExecChain(prop string) func(t *testing.T, pa any, col *kernel.Collector) []kernel.Violation {
	return func(t *testing.T, pa any, col *kernel.Collector) []kernel.Violation {
		p := pa.(*Plan)
		var vs []kernel.Violation
		Bubble(t, func() { vs = execChain(prop, p, col) })
		return vs
	}
}

func execChain(prop string, p *Plan, col *kernel.Collector) []kernel.Violation {
	simStart := time.Now() // the bubble's clock: elapsed = simulated time
	defer func() { col.AddSim(time.Since(simStart)) }()
	ResetCrit()
	defer InstallMapOrder(p.OrderSeed)()
	mrand.Seed(int64(HashPlan(p) & 0x7fffffffffffffff))
	if p.GoMaxProcs > 0 && os.Getenv("VERIF_NO_GOMAXPROCS") == "" {
		defer runtime.GOMAXPROCS(runtime.GOMAXPROCS(p.GoMaxProcs))
	}
	u, err := Build(&p.Recipe)
	if err != nil {
		if prop == "C01" && errors.Is(err, ErrOracleRejected) {
			return []kernel.Violation{{Class: "own-built-block-rejected", Detail: err.Error()}}
		}
		col.Inc("universe_build_failed")
		col.Sample(map[string]any{"universe_build_failed": err.Error()})
		return nil
	}
	defer func() { u.Close(); SettleTime(3 * time.Second) }()
	c := &chainRun{p: p, u: u, col: col, odigest: map[int]string{}, c01: prop == "C01", c02: prop == "C02", c03: prop == "C03"}
	for _, cfg := range p.Nodes {
		n, err := NewNode(u, cfg)
		if err != nil {
			c.add("open-error", -1, "fresh node: %v", err)
			return c.vs
		}
		c.nodes = append(c.nodes, n)
		c.accepted = append(c.accepted, map[int]bool{0: true})
		c.hdrOnly = append(c.hdrOnly, map[int]bool{0: true})
		c.prevTD = append(c.prevTD, new(big.Int).Set(u.TD[0]))
		c.queued = append(c.queued, map[int]time.Time{})
	}
	if c.c03 {
		c.txIndex = map[common.Hash][]txLoc{}
		for id := 1; id < len(u.Blocks); id++ {
			for i, tx := range u.Blocks[id].Transactions() {
				c.txIndex[tx.Hash()] = append(c.txIndex[tx.Hash()], txLoc{id, i})
			}
		}
		for _, locs := range c.txIndex {
			if len(locs) > 1 {
				col.Inc("probe_tx_mined_on_two_branches")
				break
			}
		}
	}
	col.Add("blocks_built", int64(len(u.Blocks)-1))
	for i, op := range p.Ops {
		col.Tick()
		if op.Node < 0 || op.Node >= len(c.nodes) {
			continue
		}
		c.apply(i, op)
		if len(c.vs) > 0 {
			return c.vs
		}
	}
	if c.c02 {
		c.finalConvergence()
	}
	kernel.SetNonTrivial()
	return c.vs
}

// ErrOracleRejected marks a universe whose generated block the import path refused.
var ErrOracleRejected = errors.New("oracle node rejected generated block")

func (c *chainRun) apply(i int, op Op) {
	if os.Getenv("VERIF_DEBUG") != "" {
		defer func() {
			n := c.nodes[op.Node]
			if n.BC == nil {
				return
			}
			h := n.BC.CurrentBlock()
			fmt.Fprintf(os.Stderr, "DEBUG op %d %s node %d %v -> head #%d id %d td %v\n", i, op.Kind, op.Node, op.Blocks, h.NumberU64(), c.u.ByHash[h.Hash()], n.BC.GetTd(h.Hash(), h.NumberU64()))
			for id := 1; id < len(c.u.Blocks); id++ {
				b := c.u.Blocks[id]
				fmt.Fprintf(os.Stderr, "   id %d #%d hasBlock=%v hasState=%v td=%v\n", id, b.NumberU64(), n.BC.HasBlock(b.Hash(), b.NumberU64()), n.BC.HasState(b.Root()), n.BC.GetTd(b.Hash(), b.NumberU64()))
			}
		}()
	}
	n := c.nodes[op.Node]
	u := c.u
	before := n.HeadID()
	if c.future() {
		c.settleFuture(op.Node, i)
		if len(c.vs) > 0 {
			return
		}
		if op.Kind == "restart" {
			c.queued[op.Node] = map[int]time.Time{} // the parked blocks live in memory only
		}
	}
	switch op.Kind {
	case "insert":
		if c.future() {
			c.applyFutureInsert(i, op)
			if len(c.vs) > 0 {
				return
			}
			break
		}
		if len(c.fast[op.Node]) > 0 && !c.pivoted[op.Node] {
			// a fast-syncing node imports nothing through InsertChain before its pivot is
			// committed (the fetcher is off, the downloader is the only importer): such a
			// history (e.g. a shrunk one that lost its pivot) is not one the node can see
			c.col.Inc("insert_skipped_before_the_pivot_of_a_fast_sync")
			break
		}
		idx, err, died, pan := n.Insert(op.Blocks)
		if pan != "" {
			c.add("import-panic", i, "InsertChain panicked: %s", firstLines(pan, 14))
			return
		}
		if died != "" {
			c.add("import-crit", i, "InsertChain ended in log.Crit without any injected fault: %s", died)
			return
		}
		c.col.Add("op_insert_blocks", int64(len(op.Blocks)))
		okUpTo := len(op.Blocks)
		if err != nil {
			okUpTo = idx
			// a valid block whose parent this node was given must be accepted
			bad := op.Blocks[idx]
			parentKnown := c.accepted[op.Node][u.Parent[bad]] || (idx > 0 && op.Blocks[idx-1] == u.Parent[bad])
			if parentKnown && contiguous(u, op.Blocks) && c.c03 {
				// C03 speaks about the index, not about acceptance: after rewinds a
				// pruning node may be unable to re-execute a block whose parent state
				// is gone. Counted, and the index invariants are still checked.
				c.col.Inc("valid_block_refused_after_rewind")
			} else if parentKnown && contiguous(u, op.Blocks) {
				c.add("valid-block-rejected", i, "node %d: InsertChain(%v) failed at index %d (block id %d #%d): %v", op.Node, op.Blocks, idx, bad, u.Blocks[bad].NumberU64(), err)
				return
			}
			c.col.Inc("non_parent_closed_delivery")
		}
		for _, id := range op.Blocks[:okUpTo] {
			// parent-closed by induction: a block whose parent the model does not
			// hold (e.g. re-delivered after a rewind orphaned it) is not counted
			if c.accepted[op.Node][u.Parent[id]] {
				c.accepted[op.Node][id] = true
			}
		}
		if c.c01 {
			c.checkC01Import(i, op, okUpTo)
		}
		if c.pivotHead[op.Node] && n.HeadID() != before {
			c.pivotHead[op.Node] = false // an executed block followed: the head pointer is on disk now
		}
	case "headers":
		idx, err, died, pan := n.InsertHeaders(op.Blocks)
		if pan != "" || died != "" {
			c.add("import-panic", i, "InsertHeaderChain died=%q panic=%s", died, firstLines(pan, 14))
			return
		}
		okUpTo := len(op.Blocks)
		if err != nil {
			okUpTo = idx
			bad := op.Blocks[idx]
			if (c.hdrOnly[op.Node][u.Parent[bad]] || c.accepted[op.Node][u.Parent[bad]]) && contiguous(u, op.Blocks) && idx == 0 && !c.c03 {
				c.add("valid-header-rejected", i, "node %d: InsertHeaderChain(%v) failed at %d: %v", op.Node, op.Blocks, idx, err)
				return
			}
			c.col.Inc("non_parent_closed_delivery")
			okUpTo = 0 // header chains are validated as a whole before anything is written
		}
		for _, id := range op.Blocks[:okUpTo] {
			if c.hdrOnly[op.Node][u.Parent[id]] || c.accepted[op.Node][u.Parent[id]] {
				c.hdrOnly[op.Node][id] = true
			}
		}
		c.col.Add("op_insert_headers", int64(len(op.Blocks)))
	case "receipts":
		// fast sync, second stage: bodies and receipts of blocks whose headers the node has
		idx, err, died, pan := n.InsertReceipts(op.Blocks)
		if pan != "" || died != "" {
			c.add("import-panic", i, "InsertReceiptChain died=%q panic=%s", died, firstLines(pan, 14))
			return
		}
		okUpTo := len(op.Blocks)
		if err != nil {
			okUpTo = idx
			bad := op.Blocks[idx]
			if (c.hdrOnly[op.Node][bad] || c.accepted[op.Node][bad]) && contiguous(u, op.Blocks) {
				c.add("valid-receipts-rejected", i, "node %d: InsertReceiptChain(%v) failed at %d (block id %d, header known): %v", op.Node, op.Blocks, idx, bad, err)
				return
			}
			c.col.Inc("non_parent_closed_delivery")
		}
		if c.fast == nil {
			c.fast = map[int]map[int]bool{}
		}
		if c.fast[op.Node] == nil {
			c.fast[op.Node] = map[int]bool{}
		}
		for _, id := range op.Blocks[:okUpTo] {
			if c.hdrOnly[op.Node][id] || c.accepted[op.Node][id] {
				c.fast[op.Node][id] = true
			}
		}
		c.col.Add("op_insert_receipts", int64(okUpTo))
	case "pivot":
		// fast sync, last stage: the state of one block is downloaded, the block becomes the head
		id := op.Blocks[0]
		if !c.fast[op.Node][id] && !c.accepted[op.Node][id] {
			c.col.Inc("non_parent_closed_delivery")
			break
		}
		fetched, err, died, pan := n.SyncState(id, op.Arg)
		if pan != "" || died != "" {
			c.add("import-panic", i, "state sync / FastSyncCommitHead died=%q panic=%s", died, firstLines(pan, 14))
			return
		}
		if err != nil {
			c.add("state-sync-failed", i, "node %d: state of block id %d (#%d) served correctly by a peer: %v", op.Node, id, u.Blocks[id].NumberU64(), err)
			return
		}
		c.accepted[op.Node][id] = true
		c.prevTD[op.Node] = nil
		if c.pivotHead == nil {
			c.pivotHead = map[int]bool{}
		}
		c.pivotHead[op.Node] = true
		if c.pivoted == nil {
			c.pivoted = map[int]bool{}
		}
		c.pivoted[op.Node] = true
		c.col.Add("state_entries_synced", int64(fetched))
		c.col.Inc("probe_fast_sync_pivot_committed")
	case "sethead":
		err, died, pan := n.SetHead(op.Num)
		if pan != "" || died != "" {
			c.add("sethead-panic", i, "SetHead(%d) died=%q panic=%s", op.Num, died, firstLines(pan, 14))
			return
		}
		if err != nil {
			c.add("sethead-error", i, "SetHead(%d): %v", op.Num, err)
			return
		}
		c.col.Inc("op_sethead")
		if n.BC.CurrentBlock().NumberU64() < n.BC.CurrentHeader().Number.Uint64() {
			if c.fellBack == nil {
				c.fellBack = map[int]bool{}
			}
			c.fellBack[op.Node] = true
			c.col.Inc("probe_sethead_fell_back_below_header_head")
		}
		// the rewind forgets what lies above
		for id := range c.accepted[op.Node] {
			if u.Blocks[id].NumberU64() > op.Num {
				delete(c.accepted[op.Node], id)
			}
		}
		for id := range c.hdrOnly[op.Node] {
			if u.Blocks[id].NumberU64() > op.Num {
				delete(c.hdrOnly[op.Node], id)
			}
		}
		c.prevTD[op.Node] = nil
	case "restart":
		if d, pan := n.Stop(); pan != "" || d != "" {
			c.add("stop-panic", i, "Stop died=%q panic=%s", d, firstLines(pan, 14))
			return
		}
		SettleTime(2 * time.Second)
		bc, err, pan := OpenChain(u, n.Disk, n.Cfg)
		if pan != "" || err != nil {
			c.add("reopen-failed", i, "NewBlockChain after clean stop: err=%v panic=%s", err, firstLines(pan, 14))
			return
		}
		n.BC = bc
		c.col.Inc("op_clean_restart")
		if c.pivotHead[op.Node] && n.HeadID() != before {
			// the pivot of a fast sync becomes the head in memory only (FastSyncCommitHead writes no
			// head pointer); until the first executed block follows, a restart reopens at the
			// last executed head. Outside the properties checked here: counted, not judged.
			c.col.Inc("probe_restart_right_after_pivot_reopened_at_last_executed_head")
			c.pivotHead[op.Node] = false
			c.pivoted[op.Node] = false // the node is back in its fast-sync stage: no InsertChain until a pivot is committed again
			break
		}
		if os.Getenv("VERIF_DEBUG") != "" && before >= 0 {
			bb := u.Blocks[before]
			hh := core.GetHeadBlockHash(n.Disk)
			_, onDisk := n.Disk.Get(bb.Root().Bytes())
			fmt.Fprintf(os.Stderr, "DEBUG restart: head before id %d root %x; disk LastBlock id %d; root on disk err=%v; HasState=%v\n", before, bb.Root().Bytes()[:4], u.ByHash[hh], onDisk, n.BC.HasState(bb.Root()))
		}
		if after := n.HeadID(); after != before {
			c.add("head-changed-across-clean-restart", i, "node %d head id %d before Stop, id %d after reopening", op.Node, before, after)
			return
		}
	case "crash":
		// kill at rest: only the durable image survives
		img := n.Disk.Snapshot()
		n.Disk.Detach()
		guarded(func() { n.BC.Stop() })
		SettleTime(2 * time.Second)
		n.Disk = simdisk.FromImage(img)
		n.Disk.Scale = n.Cfg.Scale
		if n.Disk.Scale == 0 {
			n.Disk.Scale = 1
		}
		bc, err, pan := OpenChain(u, n.Disk, n.Cfg)
		if pan != "" || err != nil {
			c.add("reopen-failed", i, "NewBlockChain after crash at rest: err=%v panic=%s", err, firstLines(pan, 14))
			return
		}
		n.BC = bc
		c.col.Inc("fault_crash_restart")
		c.prevTD[op.Node] = nil
		if c.pivotHead[op.Node] {
			c.pivotHead[op.Node], c.pivoted[op.Node] = false, false
		}
	case "mutant":
		c.applyMutant(i, op)
		return
	case "advance":
		SettleTime(time.Duration(op.Ms) * time.Millisecond)
		c.col.AddSim(time.Duration(op.Ms) * time.Millisecond)
	}
	after := n.HeadID()
	if before >= 0 && after >= 0 && after != before && !u.IsAncestor(before, after) && op.Kind == "insert" {
		c.col.Inc("probe_reorg")
		if u.Blocks[after].NumberU64() < u.Blocks[before].NumberU64() {
			c.col.Inc("probe_reorg_to_shorter_heavier")
		}
	}
	if c.future() {
		c.settleFuture(op.Node, i)
		if len(c.vs) > 0 {
			return
		}
	}
	if c.c02 {
		c.checkC02(i, op)
	}
	if c.c03 && len(c.vs) == 0 {
		c.checkC03(i, op)
	}
}

func contiguous(u *Universe, ids []int) bool {
	for i := 1; i < len(ids); i++ {
		if u.Parent[ids[i]] != ids[i-1] {
			return false
		}
	}
	return true
}

// ---- C02: the head is a heaviest accepted block ---------------------------------------

func (c *chainRun) checkC02(i int, op Op) {
	n := c.nodes[op.Node]
	u := c.u
	head := n.BC.CurrentBlock()
	hid, ok := u.ByHash[head.Hash()]
	if !ok || !c.accepted[op.Node][hid] {
		c.add("head-not-among-given-blocks", i, "node %d head %x (id %d) was never handed to it", op.Node, head.Hash().Bytes()[:4], hid)
		return
	}
	max, maxID := new(big.Int), -1
	for id := 0; id < len(u.Blocks); id++ { // ascending ids: the harness must not depend on map order
		if c.accepted[op.Node][id] && u.TD[id].Cmp(max) > 0 {
			max, maxID = u.TD[id], id
		}
	}
	htd := n.BC.GetTd(head.Hash(), head.NumberU64())
	if htd == nil || htd.Cmp(u.TD[hid]) != 0 {
		c.add("stored-td-wrong", i, "node %d: GetTd(head id %d) = %v, parent-sum of difficulties = %v", op.Node, hid, htd, u.TD[hid])
		return
	}
	if u.TD[hid].Cmp(max) != 0 {
		// distinguish the literal reading (heaviest among blocks with state)
		lit := "the heavier block has no state on this node (accepted as a side block)"
		if n.BC.HasBlockAndState(u.Blocks[maxID].Hash(), u.Blocks[maxID].NumberU64()) {
			lit = "the heavier block is fully validated (block and state present)"
		}
		c.add("head-not-heaviest", i, "node %d after op %d (%s %v): head id %d (#%d, td %v) but accepted block id %d (#%d) has td %v; %s",
			op.Node, i, op.Kind, op.Blocks, hid, head.NumberU64(), u.TD[hid], maxID, u.Blocks[maxID].NumberU64(), max, lit)
		return
	}
	if op.Kind == "insert" && c.prevTD[op.Node] != nil && htd.Cmp(c.prevTD[op.Node]) < 0 {
		c.add("head-td-decreased", i, "node %d: head td went from %v to %v during an import", op.Node, c.prevTD[op.Node], htd)
		return
	}
	c.prevTD[op.Node] = htd
	if maxID != hid {
		c.col.Inc("probe_td_tie")
	}
	// every stored block's TD is its parent's plus its own difficulty
	for _, id := range op.Blocks {
		if !c.accepted[op.Node][id] {
			continue
		}
		b := u.Blocks[id]
		td := n.BC.GetTd(b.Hash(), b.NumberU64())
		ptd := n.BC.GetTd(b.ParentHash(), b.NumberU64()-1)
		if td == nil || ptd == nil || new(big.Int).Add(ptd, b.Difficulty()).Cmp(td) != 0 || td.Cmp(u.TD[id]) != 0 {
			c.add("stored-td-wrong", i, "node %d: block id %d td=%v parent td=%v difficulty=%v model=%v", op.Node, id, td, ptd, b.Difficulty(), u.TD[id])
			return
		}
	}
	hb := u.Blocks[hid]
	// probes: which interesting fork-choice situations did this history reach?
	for id := range c.accepted[op.Node] {
		if id != hid && !u.IsAncestor(id, hid) && u.Blocks[id].NumberU64() > hb.NumberU64() {
			c.col.Inc("probe_longer_but_lighter_loses")
			break
		}
	}
}

func (c *chainRun) finalConvergence() {
	// liveness: once every block has been delivered to every node, all heads
	// have the same total difficulty
	u := c.u
	all := true
	for ni := range c.nodes {
		for id := 1; id < len(u.Blocks); id++ {
			if !c.accepted[ni][id] {
				all = false
			}
		}
	}
	if !all || len(c.vs) > 0 {
		return
	}
	c.col.Inc("probe_all_delivered_everywhere")
	var ref *big.Int
	for ni, n := range c.nodes {
		td := n.HeadTD()
		if ref == nil {
			ref = td
		} else if td == nil || td.Cmp(ref) != 0 {
			c.add("nodes-did-not-converge", len(c.p.Ops), "node %d head td %v, node 0 head td %v after every block was delivered everywhere", ni, td, ref)
			return
		}
	}
}

// ---- C03: the canonical index describes exactly the chain ending at the head ----------

func (c *chainRun) checkC03(i int, op Op) {
	n := c.nodes[op.Node]
	u := c.u
	db := n.Disk
	bhead := n.BC.CurrentBlock()
	hhead := n.BC.CurrentHeader()
	bid, ok1 := u.ByHash[bhead.Hash()]
	hh := hhead.Hash()
	hid, ok2 := u.ByHash[hh]
	if !ok1 || !ok2 {
		c.add("head-unknown", i, "node %d: block head %x / header head %x not in the universe", op.Node, bhead.Hash().Bytes()[:4], hh[:4])
		return
	}
	// "the head being the block head for full imports and the header head for header-first imports"
	top := hid
	if u.Blocks[bid].NumberU64() > u.Blocks[hid].NumberU64() {
		top = bid
	}
	if !u.IsAncestor(bid, top) {
		c.add("block-head-not-on-header-chain", i, "node %d: block head id %d is not an ancestor of header head id %d", op.Node, bid, hid)
		return
	}
	for id := top; id >= 0; id = u.Parent[id] {
		num := u.Blocks[id].NumberU64()
		want := u.Blocks[id].Hash()
		if got := core.GetCanonicalHash(db, num); got != want {
			c.add("canonical-index-wrong-below-head", i, "node %d after op %d (%s): height %d maps to %x, head's ancestor there is id %d (%x)", op.Node, i, op.Kind, num, got[:4], id, want[:4])
			return
		}
		if h := n.BC.GetHeaderByNumber(num); h == nil || h.Hash() != want {
			c.add("canonical-index-wrong-below-head", i, "node %d: GetHeaderByNumber(%d) disagrees with the head's ancestry", op.Node, num)
			return
		}
		if num <= u.Blocks[bid].NumberU64() {
			b := n.BC.GetBlockByNumber(num)
			if b == nil || b.Hash() != want {
				c.add("canonical-block-not-retrievable", i, "node %d: GetBlockByNumber(%d) nil or wrong below the block head", op.Node, num)
				return
			}
			if n.BC.GetBody(want) == nil || n.BC.GetTd(want, num) == nil || n.BC.GetHeader(want, num) == nil {
				c.add("canonical-block-not-retrievable", i, "node %d: header/body/td of canonical block id %d (#%d) missing", op.Node, id, num)
				return
			}
			if len(u.Blocks[id].Transactions()) > 0 {
				rs := n.BC.GetReceiptsByHash(want)
				if len(rs) != len(u.Blocks[id].Transactions()) {
					if len(rs) == 0 && c.sharedRoot(id) {
						c.add("canonical-block-not-retrievable/receipts-of-block-adopted-unexecuted-because-its-state-root-already-existed", i, "node %d: canonical block id %d (#%d) has no receipts: it was stored unexecuted as a side block on pruned state and later adopted because a sibling with the same transactions and coinbase had produced the same state root", op.Node, id, num)
						return
					}
					c.add("canonical-block-not-retrievable", i, "node %d: receipts of canonical block id %d (#%d): have %d want %d", op.Node, id, num, len(rs), len(u.Blocks[id].Transactions()))
					return
				}
			}
		}
	}
	topNum := u.Blocks[top].NumberU64()
	for num := topNum + 1; num <= topNum+64; num++ {
		if got := core.GetCanonicalHash(db, num); got != (common.Hash{}) {
			gid := u.ByHash[got]
			c.add("stale-canonical-above-head", i, "node %d after op %d (%s %v): head is id %d (#%d) but height %d still maps to block id %d (%x)", op.Node, i, op.Kind, op.Blocks, top, topNum, num, gid, got[:4])
			return
		}
		if n.BC.GetBlockByNumber(num) != nil || n.BC.GetHeaderByNumber(num) != nil {
			c.add("stale-canonical-above-head", i, "node %d: GetBlockByNumber/GetHeaderByNumber(%d) returns something above the head #%d", op.Node, num, topNum)
			return
		}
	}
	// transaction lookups: resolve iff contained in a canonical block (up to the block head)
	for h, locs := range c.txIndex {
		// canonical location: on the chain ending at the head. Between the block
		// head and a higher header head (header-first import, or a rewind that
		// fell back to an older state) the canonical blocks may or may not have
		// bodies, so a lookup there may resolve or not - but never wrongly.
		var canon, canonAboveBlockHead *txLoc
		for k := range locs {
			l := locs[k]
			if u.IsAncestor(l.block, bid) {
				canon = &locs[k]
			} else if u.IsAncestor(l.block, top) {
				canonAboveBlockHead = &locs[k]
			}
		}
		tx, bh, bn, ti := core.GetTransaction(db, h)
		if canon == nil && canonAboveBlockHead != nil {
			if tx == nil {
				continue
			}
			canon = canonAboveBlockHead
		}
		if canon == nil {
			if tx != nil {
				// it resolves although no canonical block (up to the block head) contains it
				class := "tx-lookup-resolves-for-non-canonical-tx"
				// the recorded finding needs an import that re-routes the chain after the
				// fallback; a lookup that survives the rewind itself is a different defect
				if c.fellBack[op.Node] && op.Kind != "sethead" {
					class += "/after-sethead-fell-back-below-stored-bodies"
				}
				c.add(class, i, "node %d after op %d (%s %v): tx %x resolves to block %x #%d but is in no canonical block (block head id %d #%d)", op.Node, i, op.Kind, op.Blocks, h[:4], bh[:4], bn, bid, u.Blocks[bid].NumberU64())
				return
			}
			continue
		}
		cb := u.Blocks[canon.block]
		if tx == nil {
			c.add("tx-lookup-missing-for-canonical-tx", i, "node %d after op %d (%s %v): tx %x is in canonical block id %d (#%d) index %d but does not resolve", op.Node, i, op.Kind, op.Blocks, h[:4], canon.block, cb.NumberU64(), canon.index)
			return
		}
		if bh != cb.Hash() || bn != cb.NumberU64() || int(ti) != canon.index {
			c.add("tx-lookup-points-elsewhere", i, "node %d: tx %x resolves to (%x,#%d,%d), canonical location is block id %d (%x,#%d,%d)", op.Node, h[:4], bh[:4], bn, ti, canon.block, cb.Hash().Bytes()[:4], cb.NumberU64(), canon.index)
			return
		}
		r, rbh, rbn, rti := core.GetReceipt(db, h)
		if r == nil || rbh != cb.Hash() || rbn != cb.NumberU64() || int(rti) != canon.index {
			c.add("receipt-lookup-wrong", i, "node %d: receipt of tx %x resolves to (%x,#%d,%d) nil=%v, canonical location is block id %d (#%d,%d)", op.Node, h[:4], rbh[:4], rbn, rti, r == nil, canon.block, cb.NumberU64(), canon.index)
			return
		}
		c.col.Inc("tx_lookups_checked")
	}
	if top != bid {
		c.col.Inc("probe_header_head_above_block_head")
	}
}

// ---- C01: deterministic import, per delivered block ------------------------------------

func (c *chainRun) checkC01Import(i int, op Op, okUpTo int) {
	n := c.nodes[op.Node]
	u := c.u
	head := n.HeadID()
	for _, id := range op.Blocks[:okUpTo] {
		b := u.Blocks[id]
		// executed on this node for sure: it is on the canonical chain now, or its
		// receipts are stored. (A block parked unexecuted as a lighter side block on
		// pruned state has neither; its root may still "exist" because a sibling
		// with the same transactions and coinbase produced the same state.)
		executed := u.IsAncestor(id, head) || len(n.BC.GetReceiptsByHash(b.Hash())) > 0
		if !executed && len(b.Transactions()) > 0 {
			c.col.Inc("receipt_compare_skipped_side_block_on_pruned_state")
		}
		if !n.BC.HasBlock(b.Hash(), b.NumberU64()) {
			c.add("accepted-block-not-stored", i, "node %d: block id %d accepted but not stored", op.Node, id)
			return
		}
		if !n.BC.HasState(b.Root()) {
			c.col.Inc("state_compare_skipped_no_state")
			continue
		}
		d, err := nodeStateDigest(n, b.Root())
		if err != nil {
			c.add("imported-state-incomplete", i, "node %d: state of block id %d: %v", op.Node, id, err)
			return
		}
		if od := c.oracleDigest(id); d != od {
			c.add("post-state-differs-between-histories", i, "node %d (archive=%v): post-state digest of block id %d (#%d) is %s, the oracle node computed %s", op.Node, n.Cfg.Archive, id, b.NumberU64(), d, od)
			return
		}
		rs := n.BC.GetReceiptsByHash(b.Hash())
		ors := u.O.GetReceiptsByHash(b.Hash())
		if executed && (len(b.Transactions()) > 0 || len(rs) > 0) {
			if len(rs) == 0 && len(ors) > 0 && c.sharedRoot(id) {
				c.add("receipts-differ-between-histories/block-adopted-unexecuted-because-its-state-root-already-existed", i, "node %d: canonical block id %d (#%d) has no receipts: stored unexecuted as a side block on pruned state, adopted later because a sibling produced the same state root", op.Node, id, b.NumberU64())
				return
			}
			if receiptsDigest(rs) != receiptsDigest(ors) || len(rs) != len(b.Transactions()) {
				c.add("receipts-differ-between-histories", i, "node %d: receipts of block id %d (#%d) differ from the oracle node's (%d vs %d receipts)", op.Node, id, b.NumberU64(), len(rs), len(ors))
				return
			}
			var gas uint64
			if len(rs) > 0 {
				gas = rs[len(rs)-1].CumulativeGasUsed
			}
			if gas != b.GasUsed() {
				c.add("gas-used-differs", i, "node %d: block id %d cumulative gas %d, header gas used %d", op.Node, id, gas, b.GasUsed())
				return
			}
		}
		c.col.Inc("blocks_compared_with_oracle")
	}
}

// sharedRoot reports whether another block of the universe has the same state
// root as block id (same parent, same transactions, same coinbase).
func (c *chainRun) sharedRoot(id int) bool {
	r := c.u.Blocks[id].Root()
	for j := 1; j < len(c.u.Blocks); j++ {
		if j != id && c.u.Blocks[j].Root() == r {
			return true
		}
	}
	return false
}
