package chainsim

import (
	"bytes"
	"errors"
	"fmt"
	"math/big"
	mrand "math/rand"
	"os"
	"runtime"
	"strings"
	"testing"
	"time"

	"gitlab.com/aquachain/aquachain/common"
	"gitlab.com/aquachain/aquachain/core"
	"gitlab.com/aquachain/aquachain/core/types"
	"verifsim/kernel"
	"verifsim/refmodel"
	"verifsim/simdisk"
)

// ---- C04: crash consistency at every write boundary ----------------------------

type c04run struct {
	p   *Plan
	u   *Universe
	col *kernel.Collector
	cfg NodeCfg
	// crash-free reference outcome
	finalTD   *big.Int
	finalHead common.Hash
	uniqueMax bool
	// oracle state digests by block id (lazy)
	odigest      map[int]string
	completeRoot map[common.Hash]bool
	pivotLost    bool // the crash-free run lost a fast-sync pivot head to a restart
	vs           []kernel.Violation
}

func imgGetter(img map[string][]byte) refmodel.Getter {
	return func(k []byte) ([]byte, bool) { v, ok := img[string(k)]; return v, ok }
}

func (c *c04run) oracleDigest(id int) string {
	if d, ok := c.odigest[id]; ok {
		return d
	}
	st, _, err := refmodel.StateContent(func(k []byte) ([]byte, bool) {
		v, err := c.u.ODB.Get(k)
		return v, err == nil
	}, c.u.Blocks[id].Root().Bytes())
	d := "ERR"
	if err == nil {
		d = refmodel.StateDigest(st)
	}
	c.odigest[id] = d
	return d
}

func (c *c04run) add(class string, step int, format string, a ...any) {
	c.vs = append(c.vs, kernel.Violation{Class: class, Step: step, Detail: fmt.Sprintf(format, a...)})
}

// applyOps runs the workload on a node. It returns false if the simulated
// process died (log.Crit after a failed write).
func (c *c04run) applyOps(n *Node, probe bool) (alive bool, reorgOps map[int]bool, opRange [][2]int) {
	reorgOps = map[int]bool{}
	syncAborted, pivotVolatile := false, false
	for i, op := range c.p.Ops {
		c.col.Tick()
		start := n.Disk.Len()
		n.Disk.SetTag(fmt.Sprintf("op%d:%s", i, op.Kind))
		before := n.HeadID()
		switch op.Kind {
		case "insert":
			_, err, died, pan := n.Insert(op.Blocks)
			if pan != "" {
				c.add("import-panic", i, "InsertChain panicked: %s", pan)
				return false, reorgOps, opRange
			}
			if died != "" {
				return false, reorgOps, opRange
			}
			_ = err // errors are legal after an injected failure or for non-parent-closed (shrunk) plans
			if n.HeadID() != before {
				pivotVolatile = false // an executed block followed: the head pointer is on disk
			}
		case "headers", "receipts", "pivot":
			// fast sync: header chain, bodies + receipts, state download + pivot commit. A stage
			// that returned an error (an injected write failure) ends the sync, as it does in the
			// downloader: later stages of it are not attempted on top of the gap
			if syncAborted {
				c.col.Inc("fast_sync_stage_skipped_after_an_error")
				opRange = append(opRange, [2]int{start, n.Disk.Len()})
				continue
			}
			var died, pan string
			var err error
			switch op.Kind {
			case "headers":
				_, err, died, pan = n.InsertHeaders(op.Blocks)
			case "receipts":
				_, err, died, pan = n.InsertReceipts(op.Blocks)
				c.col.Inc("op_insert_receipts")
			default:
				_, err, died, pan = n.SyncState(op.Blocks[0], op.Arg)
				if err == nil && died == "" && pan == "" {
					pivotVolatile = true
					if probe {
						c.col.Inc("probe_fast_sync_pivot_committed")
					}
				}
			}
			if err != nil && n.Disk.FailAt >= 0 {
				syncAborted = true
			}
			if pan != "" {
				c.add("import-panic", i, "%s panicked: %s", op.Kind, pan)
				return false, reorgOps, opRange
			}
			if died != "" {
				return false, reorgOps, opRange
			}
		case "restart":
			if pivotVolatile && probe {
				// the pivot became the head in memory only (FastSyncCommitHead writes no head
				// pointer): this restart reopens at the last executed head, which re-feeding
				// without restarts cannot reproduce - the convergence clause is not judged
				c.pivotLost = true
				c.col.Inc("probe_restart_right_after_pivot_reopened_at_last_executed_head")
			}
			pivotVolatile = false
			if d, pan := n.Stop(); pan != "" {
				c.add("stop-panic", i, "Stop panicked: %s", pan)
				return false, reorgOps, opRange
			} else if d != "" {
				return false, reorgOps, opRange
			}
			SettleTime(2 * time.Second)
			bc, err, pan := OpenChain(c.u, n.Disk, n.Cfg)
			if pan != "" {
				c.add("reopen-panic", i, "NewBlockChain after clean stop panicked: %s", pan)
				return false, reorgOps, opRange
			}
			if errors.Is(err, ErrDiedOpening) {
				n.Died = err.Error()
				return false, reorgOps, opRange
			}
			if err != nil {
				c.add("reopen-error", i, "NewBlockChain after clean stop: %v", err)
				return false, reorgOps, opRange
			}
			n.BC = bc
		}
		after := n.HeadID()
		if probe && before >= 0 && after >= 0 && after != before && !c.u.IsAncestor(before, after) {
			reorgOps[i] = true
			c.col.Inc("probe_reorg")
			if c.u.Blocks[after].NumberU64() < c.u.Blocks[before].NumberU64() {
				c.col.Inc("probe_reorg_to_shorter_heavier")
			}
		}
		opRange = append(opRange, [2]int{start, n.Disk.Len()})
	}
	return true, reorgOps, opRange
}

// ExecC04 executes one C04 plan inside a bubble.
func ExecC04(t *testing.T, pa any, col *kernel.Collector) []kernel.Violation {
	p := pa.(*Plan)
	var vs []kernel.Violation
	Bubble(t, func() {
		vs = execC04(p, col)
	})
	return vs
}

func execC04(p *Plan, col *kernel.Collector) []kernel.Violation {
	simStart := time.Now() // the bubble's clock: elapsed = simulated time
	defer func() { col.AddSim(time.Since(simStart)) }()
	ResetCrit()
	defer InstallMapOrder(p.OrderSeed)()
	mrand.Seed(int64(HashPlan(p) & 0x7fffffffffffffff))
	if p.GoMaxProcs > 0 && os.Getenv("VERIF_NO_GOMAXPROCS") == "" {
		defer runtime.GOMAXPROCS(runtime.GOMAXPROCS(p.GoMaxProcs))
	}
	u, err := Build(&p.Recipe)
	if err != nil {
		col.Inc("universe_build_failed")
		col.Sample(map[string]any{"universe_build_failed": err.Error()})
		return nil
	}
	defer func() { u.Close(); SettleTime(3 * time.Second) }()
	c := &c04run{p: p, u: u, col: col, cfg: p.Nodes[0], odigest: map[int]string{}, completeRoot: map[common.Hash]bool{}}

	// phase 1: the crash-free execution, recorded
	n, err := NewNode(u, c.cfg)
	if err != nil {
		c.add("reopen-error", -1, "fresh node: %v", err)
		return c.vs
	}
	alive, reorgOps, opRange := c.applyOps(n, true)
	if len(c.vs) > 0 {
		return c.vs
	}
	_ = alive
	stopStart := n.Disk.Len()
	n.Disk.SetTag("final-stop")
	if d, pan := n.Stop(); pan != "" || d != "" {
		c.add("stop-panic", len(p.Ops), "final Stop: died=%q panic=%q", d, pan)
		return c.vs
	}
	SettleTime(2 * time.Second)
	head := n.BC.CurrentBlock()
	c.finalHead = head.Hash()
	c.finalTD = n.BC.GetTd(head.Hash(), head.NumberU64())
	// is the maximum total difficulty unique among delivered blocks?
	delivered := map[int]bool{}
	for _, op := range p.Ops {
		for _, b := range op.Blocks {
			delivered[b] = true
		}
	}
	maxCount := 0
	for id := range delivered {
		if u.TD[id].Cmp(c.finalTD) == 0 {
			maxCount++
		}
	}
	c.uniqueMax = maxCount <= 1
	log := n.Disk.Log()
	col.Add("writes_logged", int64(len(log)))
	if dbg := os.Getenv("VERIF_DEBUG_WRITES"); dbg != "" {
		f, _ := os.OpenFile(dbg, os.O_APPEND|os.O_CREATE|os.O_WRONLY, 0o644)
		for i := range log {
			fmt.Fprintf(f, "%d %s\n", i, simdisk.Describe(log[i]))
		}
		fmt.Fprintln(f, "----")
		f.Close()
	}
	col.Add("blocks_built", int64(len(u.Blocks)-1))
	if c.cfg.Archive {
		col.Inc("runs_archive")
	} else {
		col.Inc("runs_pruning")
	}

	// which boundaries to check
	sel := map[int]int{} // boundary -> 1 reopen only, 2 reopen + refeed
	if len(p.Images) > 0 {
		for _, w := range p.Images {
			sel[w] = 2
		}
	} else if p.AllImages {
		for w := 0; w <= len(log); w++ {
			sel[w] = 2
		}
	} else {
		srng := kernel.NewRNG(p.SampleSeed)
		for i, r := range opRange {
			window := reorgOps[i] || p.Ops[i].Kind == "restart" || p.Ops[i].Kind == "pivot" || p.Ops[i].Kind == "receipts"
			for w := r[0]; w <= r[1]; w++ {
				if window {
					sel[w] = 2
				} else if srng.Bool(0.25) {
					sel[w] = 1
					if srng.Bool(0.3) {
						sel[w] = 2
					}
				}
			}
		}
		for w := stopStart; w <= len(log); w++ {
			sel[w] = 2
		}
	}
	if p.FailAt < 0 || len(p.Images) > 0 {
		img := n.Disk.Base()
		for w := 0; w <= len(log); w++ {
			if w > 0 {
				simdisk.Apply(img, log[w-1])
			}
			mode, ok := sel[w]
			if !ok {
				continue
			}
			col.Tick()
			tag := "start"
			if w > 0 {
				tag = log[w-1].Tag
			}
			c.checkImage(img, w, tag, mode == 2)
			col.Inc("crash_images_checked")
			if strings.HasSuffix(tag, ":pivot") || strings.HasSuffix(tag, ":receipts") || strings.HasSuffix(tag, ":headers") {
				col.Inc("fault_crash_inside_fast_sync")
			}
			if mode == 2 {
				col.Inc("crash_images_refed")
			}
			if len(c.vs) > 0 {
				return c.vs
			}
		}
		if len(reorgOps) > 0 {
			kernel.SetNonTrivial()
		}
		if len(log) > 0 {
			kernel.SetNonTrivial()
		}
	}

	// phase 2: failed writes. FailAt = -2 means "per tier policy", >= 0 one index.
	attempts := n.Disk.Attempts()
	var fails []int
	switch {
	case p.FailAt >= 0:
		fails = []int{p.FailAt}
	case p.FailAt == -2:
		for i := 0; i < attempts; i++ {
			fails = append(fails, i)
		}
	case p.FailAt <= -3: // sample: every k-th starting at offset
		k := -p.FailAt
		for i := int(p.SampleSeed % uint64(k)); i < attempts; i += k {
			fails = append(fails, i)
		}
	}
	for _, f := range fails {
		col.Tick()
		c.failRun(f)
		if len(c.vs) > 0 {
			return c.vs
		}
	}
	return c.vs
}

// failRun re-executes the workload with write attempt f failing once.
func (c *c04run) failRun(f int) {
	n, err := NewNode(c.u, c.cfg)
	if err != nil {
		return
	}
	n.Disk.FailAt = f
	kernel.SetStallContext(f)
	alive, _, _ := c.applyOps(n, false)
	for i := range c.vs {
		c.vs[i].Class = "after-failed-write/" + c.vs[i].Class
		c.vs[i].Step = f
	}
	if len(c.vs) > 0 {
		return
	}
	if len(n.Disk.FailFired) == 0 {
		c.col.Inc("fail_not_reached")
		n.Stop()
		SettleTime(2 * time.Second)
		return
	}
	c.col.Inc("fault_failed_write_fired")
	if os.Getenv("VERIF_DEBUG") != "" {
		for i, e := range n.Disk.Log() {
			fmt.Printf("DEBUG log[%d] %s\n", i, simdisk.Describe(e))
		}
		fmt.Printf("DEBUG failed attempt %d alive=%v died=%q\n", f, alive, n.Died)
	}
	if !alive {
		// log.Crit: the process died at this write = crash image at that boundary,
		// which the enumeration of phase 1 covers. Detach and let the zombie go.
		c.col.Inc("failed_write_fatal_crit")
		img := n.Disk.Snapshot()
		Reap(n.Disk)
		n.Stop()
		SettleTime(2 * time.Second)
		c.completeRoot = map[common.Hash]bool{}
		c.checkImage(img, f, "after-crit", true)
		for i := range c.vs {
			c.vs[i].Class = "after-failed-write/" + c.vs[i].Class
			c.vs[i].Step = f
		}
		return
	}
	c.col.Inc("failed_write_survived")
	n.Disk.SetTag("final-stop")
	if d, pan := n.Stop(); pan != "" {
		c.add("after-failed-write/stop-panic", f, "Stop after failed write %d: %s", f, pan)
		return
	} else if d != "" {
		c.col.Inc("failed_write_fatal_crit")
		Reap(n.Disk)
	}
	SettleTime(2 * time.Second)
	// the surviving disk must satisfy the reopen guarantees, and so must a crash
	// right after the failed write
	// (completeness of a root is monotone only along one log, in ascending order)
	c.completeRoot = map[common.Hash]bool{}
	lg := n.Disk.Log()
	im := n.Disk.Base()
	step := len(lg)/6 + 1
	for w := 1; w <= len(lg) && len(c.vs) == 0; w++ {
		simdisk.Apply(im, lg[w-1])
		if w%step == 0 && w < len(lg) {
			c.checkImage(im, w, lg[w-1].Tag, false)
		}
	}
	if len(c.vs) == 0 {
		c.checkImage(n.Disk.Snapshot(), f, "after-failed-write-clean-stop", true)
	}
	for i := range c.vs {
		c.vs[i].Class = "after-failed-write/" + c.vs[i].Class
		c.vs[i].Step = f
	}
}

// checkImage is the reopen oracle for one durable image.
func (c *c04run) checkImage(img map[string][]byte, w int, tag string, refeed bool) {
	u := c.u
	get := imgGetter(img)
	ov := simdisk.NewOverlay(img)
	pHash := core.GetHeadBlockHash(ov)
	pid, ok := u.ByHash[pHash]
	if !ok {
		c.add("head-pointer-unknown-block", w, "[%s] LastBlock=%x is not a block of the universe", tag, pHash)
		return
	}
	c.col.MarkCase(kernel.HashBytes(pHash[:], []byte(tag), []byte{byte(w), byte(w >> 8)}))
	c.col.Inc("images_judged")
	stored := func(id int) bool {
		b := u.Blocks[id]
		return core.GetBlockNoVersion(ov, b.Hash(), b.NumberU64()) != nil
	}
	if !stored(pid) {
		c.add("head-pointer-names-missing-block", w, "[%s] durable LastBlock names block id %d (#%d) whose header/body are not on disk", tag, pid, u.Blocks[pid].NumberU64())
		// keep going: the reopen must still not panic
	}
	// expected head: nearest ancestor of P (inclusive) that is stored and whose
	// state trie is completely on disk (independent traversal)
	expected := -1
	for id := pid; id >= 0; id = u.Parent[id] {
		if !stored(id) {
			continue
		}
		root := u.Blocks[id].Root()
		if c.completeRoot[root] {
			expected = id
			break
		}
		if _, _, err := refmodel.StateContent(get, root.Bytes()); err == nil {
			c.completeRoot[root] = true
			expected = id
			break
		}
	}
	if expected != pid {
		c.col.Inc("probe_head_rewound_to_flushed_ancestor")
	}
	if c.cfg.Archive && expected != pid && stored(pid) {
		c.add("archive-head-state-missing", w, "[%s] archive node: LastBlock id %d has no complete state on disk (nearest complete ancestor id %d)", tag, pid, expected)
	}
	// a state root present on disk always has its entire trie on disk
	for id := 1; id < len(u.Blocks); id++ {
		root := u.Blocks[id].Root()
		if c.completeRoot[root] {
			continue
		}
		if _, ok := img[string(root.Bytes())]; !ok {
			continue
		}
		if _, _, err := refmodel.StateContent(get, root.Bytes()); err != nil {
			c.add("partial-trie-on-disk", w, "[%s] root of block id %d is on disk but its trie is not complete: %v", tag, id, err)
			return
		}
		c.completeRoot[root] = true
	}
	bc, err, pan := OpenChain(u, ov, c.cfg)
	if pan != "" {
		c.add("reopen-panic", w, "[%s] NewBlockChain panicked on the crash image (LastBlock id %d): %s", tag, pid, firstLines(pan, 12))
		return
	}
	if err != nil {
		c.add("reopen-error", w, "[%s] NewBlockChain failed on the crash image: %v", tag, err)
		return
	}
	defer func() {
		guarded(func() { bc.Stop() })
	}()
	head := bc.CurrentBlock()
	hid, ok := u.ByHash[head.Hash()]
	if !ok {
		c.add("reopen-head-unknown", w, "[%s] reopened head %x is not a block of the universe", tag, head.Hash())
		return
	}
	if hid != expected {
		c.add("reopen-head-mismatch", w, "[%s] LastBlock id %d (#%d); nearest ancestor with complete state id %d (#%d); reopened head id %d (#%d) archive=%v",
			tag, pid, u.Blocks[pid].NumberU64(), expected, numOf(u, expected), hid, u.Blocks[hid].NumberU64(), c.cfg.Archive)
		return
	}
	// complete state readable, and equal to what the oracle node computed
	st, _, err := refmodel.StateContent(func(k []byte) ([]byte, bool) { v, e := ov.Get(k); return v, e == nil }, head.Root().Bytes())
	if err != nil {
		c.add("reopen-head-state-incomplete", w, "[%s] head id %d: %v", tag, hid, err)
		return
	}
	if d := refmodel.StateDigest(st); d != c.oracleDigest(hid) {
		c.add("reopen-head-state-wrong", w, "[%s] head id %d state digest %s differs from the oracle's %s", tag, hid, d, c.oracleDigest(hid))
		return
	}
	// number index agrees with the head's ancestry back to genesis
	for id := hid; id >= 0; id = u.Parent[id] {
		num := u.Blocks[id].NumberU64()
		if got := core.GetCanonicalHash(ov, num); got != u.Blocks[id].Hash() {
			c.add("reopen-index-mismatch", w, "[%s] height %d maps to %x, the head's ancestor there is id %d %x", tag, num, got[:4], id, u.Blocks[id].Hash().Bytes()[:4])
			return
		}
		if b := bc.GetBlockByNumber(num); b == nil || b.Hash() != u.Blocks[id].Hash() {
			c.add("reopen-index-mismatch", w, "[%s] GetBlockByNumber(%d) does not return the head's ancestor id %d", tag, num, id)
			return
		}
	}
	if !refeed {
		return
	}
	// feeding the original blocks again converges to the crash-free head
	for i, op := range c.p.Ops {
		switch op.Kind {
		case "headers", "receipts", "pivot":
			var pan string
			switch op.Kind {
			case "headers":
				_, _, _, pan = insertHeaders(u, bc, op.Blocks)
			case "receipts":
				_, _, _, pan = insertReceipts(u, bc, op.Blocks)
			default:
				_, _, _, pan = syncState(u, bc, ov, op.Blocks[0], op.Arg)
			}
			if pan != "" {
				c.add("refeed-panic", w, "[%s] re-feeding op %d (%s) panicked: %s", tag, i, op.Kind, firstLines(pan, 12))
				return
			}
			continue
		case "insert":
		default:
			continue
		}
		blocks := make(types.Blocks, len(op.Blocks))
		for j, id := range op.Blocks {
			b := u.Blocks[id]
			blocks[j] = types.NewBlockWithHeader(b.Header()).WithBody(b.Transactions(), b.Uncles())
		}
		var ierr error
		var idx int
		_, pan := guarded(func() { idx, ierr = bc.InsertChain(blocks) })
		if pan != "" {
			c.add("refeed-panic", w, "[%s] re-feeding op %d panicked: %s", tag, i, firstLines(pan, 12))
			return
		}
		_, _ = idx, ierr
	}
	nh := bc.CurrentBlock()
	ntd := bc.GetTd(nh.Hash(), nh.NumberU64())
	if c.pivotLost {
		c.col.Inc("refeed_convergence_not_judged_pivot_head_lost")
		return
	}
	if ntd == nil || ntd.Cmp(c.finalTD) != 0 || (c.uniqueMax && nh.Hash() != c.finalHead) {
		c.add("refeed-no-convergence", w, "[%s] after re-feeding all deliveries the head is id %d (td %v); the crash-free run ended at id %d (td %v); reopened head was id %d, LastBlock id %d",
			tag, u.ByHash[nh.Hash()], ntd, u.ByHash[c.finalHead], c.finalTD, hid, pid)
	}
}

func numOf(u *Universe, id int) int64 {
	if id < 0 {
		return -1
	}
	return int64(u.Blocks[id].NumberU64())
}

func firstLines(s string, n int) string {
	parts := bytes.SplitN([]byte(s), []byte("\n"), n+1)
	if len(parts) > n {
		parts = parts[:n]
	}
	return string(bytes.Join(parts, []byte("\n")))
}

// GenC04 draws a C04 plan.
func GenC04(rng *kernel.RNG, env *kernel.Env, k int) any {
	o := GenOpts{MinMain: 4, MaxMain: 14, MaxForks: 3, MaxTx: 4, Uncles: true, ForkModes: []string{"nohf", "allhf", "staged", "random"}}
	if env.Thorough() && k%4 == 3 {
		o.MaxMain = 40
	}
	p := &Plan{FailAt: -1, SampleSeed: rng.Uint64(), GoMaxProcs: []int{1, 2, 4, 16}[rng.Intn(4)]}
	if rng.Intn(2) == 0 {
		p.OrderSeed = rng.Uint64() | 1
	}
	p.Recipe = GenRecipe(rng, o)
	cfg := NodeCfg{Archive: rng.Bool(0.4), Scale: []int{1, 1, 50, 2000}[rng.Intn(4)]}
	if !cfg.Archive {
		cfg.TrieNodeLimit = []int{0, 256}[rng.Intn(2)]
		cfg.TrieTimeNS = []int64{-1, 0, int64(5 * time.Minute)}[rng.Intn(3)]
	}
	p.Nodes = []NodeCfg{cfg}
	p.Ops = GenDeliveries(rng, &p.Recipe, 0, 0.08, 0.08, 6)
	if k%5 == 4 {
		// the node fast-syncs first: crashes land inside the header chain, the receipt chain,
		// the state download and right after the pivot became the head
		p.Ops = append(genFastSync(rng, &p.Recipe, 0), p.Ops...)
	}
	if env.Thorough() {
		p.AllImages = true
	}
	// every third run also injects failed writes
	switch k % 3 {
	case 1:
		if env.Thorough() {
			p.FailAt = -2 // every write attempt, one execution each
		} else {
			p.FailAt = -7 // every 7th write attempt
		}
	}
	return p
}

// NarrowC04 pins a violation to the single fault that produced it.
func NarrowC04(pa any, v kernel.Violation) any {
	p := pa.(*Plan)
	q := *p
	if strings.HasPrefix(v.Class, "after-failed-write/") {
		q.FailAt = v.Step
		q.Images = []int{-1} // no crash-image phase
		return &q
	}
	q.FailAt = -1
	q.AllImages = false
	q.Images = []int{v.Step}
	return &q
}
