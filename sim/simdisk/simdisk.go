// Package simdisk is the simulated disk: an aquadb.Database whose every write
// is appended to a log, so that each log prefix is the durable image a process
// crash at that boundary would leave behind (LevelDB applies a batch
// atomically and never loses an acknowledged write on process death).
package simdisk

import (
	"bytes"
	"crypto/sha256"
	"errors"
	"sort"
	"sync"

	"gitlab.com/aquachain/aquachain/aquadb"
)

type KV struct {
	K, V []byte
	Del  bool
}

const (
	KindPut   = 0
	KindDel   = 1
	KindBatch = 2
)

// Entry is one durable write: a single Put/Delete or one atomic batch flush.
type Entry struct {
	Kind int
	Ops  []KV
	Tag  string // label of the operation window the write happened in (set by the engine)
}

var ErrInjected = errors.New("simdisk: injected write failure (disk full)")
var errNotFound = errors.New("not found")

// Disk is the recording database a node under test writes to.
type Disk struct {
	mu       sync.Mutex
	cur      map[string][]byte
	base     map[string][]byte // image at log index 0
	log      []Entry
	attempts int // write attempts, including failed ones
	// FailAt: the write attempt with this index fails (nothing applied). -1 = none.
	FailAt    int
	FailFired []int
	// Scale multiplies Batch.ValueSize (moves the points at which callers flush).
	Scale    int
	Tag      string
	Detached bool // after a simulated kill: writes go nowhere
	Reads    int64
}

func New() *Disk {
	return &Disk{cur: map[string][]byte{}, base: map[string][]byte{}, FailAt: -1, Scale: 1}
}

// FromImage opens a disk on an existing image (copied).
func FromImage(img map[string][]byte) *Disk {
	d := New()
	for k, v := range img {
		d.cur[k] = v
		d.base[k] = v
	}
	return d
}

func cp(b []byte) []byte { return append([]byte{}, b...) }

func (d *Disk) Put(key, value []byte) error {
	d.mu.Lock()
	defer d.mu.Unlock()
	if d.Detached {
		return nil
	}
	idx := d.attempts
	d.attempts++
	if idx == d.FailAt {
		d.FailFired = append(d.FailFired, idx)
		return ErrInjected
	}
	v := cp(value)
	d.cur[string(key)] = v
	d.log = append(d.log, Entry{Kind: KindPut, Ops: []KV{{K: cp(key), V: v}}, Tag: d.Tag})
	return nil
}

func (d *Disk) Delete(key []byte) error {
	d.mu.Lock()
	defer d.mu.Unlock()
	if d.Detached {
		return nil
	}
	idx := d.attempts
	d.attempts++
	if idx == d.FailAt {
		d.FailFired = append(d.FailFired, idx)
		return ErrInjected
	}
	delete(d.cur, string(key))
	d.log = append(d.log, Entry{Kind: KindDel, Ops: []KV{{K: cp(key), Del: true}}, Tag: d.Tag})
	return nil
}

func (d *Disk) Get(key []byte) ([]byte, error) {
	d.mu.Lock()
	defer d.mu.Unlock()
	d.Reads++
	if v, ok := d.cur[string(key)]; ok {
		return cp(v), nil
	}
	return nil, errNotFound
}

func (d *Disk) Has(key []byte) (bool, error) {
	d.mu.Lock()
	defer d.mu.Unlock()
	_, ok := d.cur[string(key)]
	return ok, nil
}

func (d *Disk) Close() {}

func (d *Disk) NewBatch() aquadb.Batch { return &batch{d: d} }

type batch struct {
	d    *Disk
	ops  []KV
	size int
}

func (b *batch) Put(key, value []byte) error {
	b.ops = append(b.ops, KV{K: cp(key), V: cp(value)})
	b.size += len(value)
	return nil
}
func (b *batch) Delete(key []byte) error {
	b.ops = append(b.ops, KV{K: cp(key), Del: true})
	b.size++
	return nil
}
func (b *batch) ValueSize() int { return b.size * b.d.Scale }
func (b *batch) Reset()         { b.ops, b.size = nil, 0 }
func (b *batch) Write() error {
	d := b.d
	d.mu.Lock()
	defer d.mu.Unlock()
	if d.Detached {
		return nil
	}
	if len(b.ops) == 0 {
		return nil // an empty flush is not a disk write
	}
	idx := d.attempts
	d.attempts++
	if idx == d.FailAt {
		d.FailFired = append(d.FailFired, idx)
		return ErrInjected
	}
	ops := make([]KV, len(b.ops))
	copy(ops, b.ops)
	for _, o := range ops {
		if o.Del {
			delete(d.cur, string(o.K))
		} else {
			d.cur[string(o.K)] = o.V
		}
	}
	d.log = append(d.log, Entry{Kind: KindBatch, Ops: ops, Tag: d.Tag})
	return nil
}

// Len is the number of durable log entries.
func (d *Disk) Len() int { d.mu.Lock(); defer d.mu.Unlock(); return len(d.log) }

// Attempts is the number of write attempts so far (successful or failed).
func (d *Disk) Attempts() int { d.mu.Lock(); defer d.mu.Unlock(); return d.attempts }

// Detach makes every later write a silent no-op (the process is dead).
func (d *Disk) Detach() { d.mu.Lock(); d.Detached = true; d.mu.Unlock() }

func (d *Disk) SetTag(t string) { d.mu.Lock(); d.Tag = t; d.mu.Unlock() }

func (d *Disk) Log() []Entry { d.mu.Lock(); defer d.mu.Unlock(); return d.log }

// Snapshot returns a copy of the current durable image.
func (d *Disk) Snapshot() map[string][]byte {
	d.mu.Lock()
	defer d.mu.Unlock()
	m := make(map[string][]byte, len(d.cur))
	for k, v := range d.cur {
		m[k] = v
	}
	return m
}

// Base returns a copy of the image at log index 0.
func (d *Disk) Base() map[string][]byte {
	m := make(map[string][]byte, len(d.base))
	for k, v := range d.base {
		m[k] = v
	}
	return m
}

// Apply applies one log entry to an image.
func Apply(img map[string][]byte, e Entry) {
	for _, o := range e.Ops {
		if o.Del {
			delete(img, string(o.K))
		} else {
			img[string(o.K)] = o.V
		}
	}
}

// ImageAt materialises the durable image after the first w log entries.
func (d *Disk) ImageAt(w int) map[string][]byte {
	img := d.Base()
	lg := d.Log()
	for i := 0; i < w && i < len(lg); i++ {
		Apply(img, lg[i])
	}
	return img
}

// Digest is an order-insensitive digest of an image.
func Digest(img map[string][]byte) [32]byte {
	keys := make([]string, 0, len(img))
	for k := range img {
		keys = append(keys, k)
	}
	sort.Strings(keys)
	h := sha256.New()
	for _, k := range keys {
		h.Write([]byte(k))
		h.Write([]byte{0})
		h.Write(img[k])
		h.Write([]byte{1})
	}
	var out [32]byte
	copy(out[:], h.Sum(nil))
	return out
}

// Overlay is a copy-on-write database over a read-only image: recovery code
// may write without disturbing the enumeration of images.
type Overlay struct {
	mu    sync.Mutex
	under map[string][]byte
	over  map[string][]byte
	dead  map[string]bool
	Wrote int
}

func NewOverlay(img map[string][]byte) *Overlay {
	return &Overlay{under: img, over: map[string][]byte{}, dead: map[string]bool{}}
}

func (o *Overlay) Put(k, v []byte) error {
	o.mu.Lock()
	defer o.mu.Unlock()
	o.over[string(k)] = cp(v)
	delete(o.dead, string(k))
	o.Wrote++
	return nil
}
func (o *Overlay) Delete(k []byte) error {
	o.mu.Lock()
	defer o.mu.Unlock()
	delete(o.over, string(k))
	o.dead[string(k)] = true
	o.Wrote++
	return nil
}
func (o *Overlay) Get(k []byte) ([]byte, error) {
	o.mu.Lock()
	defer o.mu.Unlock()
	if v, ok := o.over[string(k)]; ok {
		return cp(v), nil
	}
	if o.dead[string(k)] {
		return nil, errNotFound
	}
	if v, ok := o.under[string(k)]; ok {
		return cp(v), nil
	}
	return nil, errNotFound
}
func (o *Overlay) Has(k []byte) (bool, error) {
	_, err := o.Get(k)
	return err == nil, nil
}
func (o *Overlay) Close() {}
func (o *Overlay) NewBatch() aquadb.Batch {
	return &obatch{o: o}
}

// Materialise returns the overlay's current content as a fresh image.
func (o *Overlay) Materialise() map[string][]byte {
	o.mu.Lock()
	defer o.mu.Unlock()
	m := make(map[string][]byte, len(o.under)+len(o.over))
	for k, v := range o.under {
		if !o.dead[k] {
			m[k] = v
		}
	}
	for k, v := range o.over {
		m[k] = v
	}
	return m
}

type obatch struct {
	o    *Overlay
	ops  []KV
	size int
}

func (b *obatch) Put(k, v []byte) error {
	b.ops = append(b.ops, KV{K: cp(k), V: cp(v)})
	b.size += len(v)
	return nil
}
func (b *obatch) Delete(k []byte) error {
	b.ops = append(b.ops, KV{K: cp(k), Del: true})
	b.size++
	return nil
}
func (b *obatch) ValueSize() int { return b.size }
func (b *obatch) Reset()         { b.ops, b.size = nil, 0 }
func (b *obatch) Write() error {
	for _, op := range b.ops {
		if op.Del {
			b.o.Delete(op.K)
		} else {
			b.o.Put(op.K, op.V)
		}
	}
	return nil
}

// HasPrefix reports whether key starts with p (helper for classifying writes).
func HasPrefix(key []byte, p string) bool { return bytes.HasPrefix(key, []byte(p)) }

// Describe renders a log entry for humans (key classes only).
func Describe(e Entry) string {
	kind := []string{"put", "del", "batch"}[e.Kind]
	s := kind + "["
	for i, o := range e.Ops {
		if i > 0 {
			s += " "
		}
		if i >= 12 {
			s += "..."
			break
		}
		s += KeyClass(o.K)
		if o.Del {
			s += "(del)"
		}
	}
	return s + "] @" + e.Tag
}

// KeyClass names the schema class of a database key.
func KeyClass(k []byte) string {
	ks := string(k)
	switch {
	case ks == "LastBlock", ks == "LastHeader", ks == "LastFast":
		return ks
	case len(k) == 32:
		return "node/code"
	case bytes.HasPrefix(k, []byte("secure-key-")):
		return "preimage"
	case len(k) > 0 && k[0] == 'h' && len(k) == 10 && k[9] == 'n':
		return "canon#" + itoa(k[1:9])
	case len(k) > 0 && k[0] == 'h' && len(k) == 42:
		return "td#" + itoa(k[1:9])
	case len(k) > 0 && k[0] == 'h' && len(k) == 41:
		return "header#" + itoa(k[1:9])
	case len(k) > 0 && k[0] == 'H' && len(k) == 33:
		return "hash2num"
	case len(k) > 0 && k[0] == 'b' && len(k) == 41:
		return "body#" + itoa(k[1:9])
	case len(k) > 0 && k[0] == 'r' && len(k) == 41:
		return "receipts#" + itoa(k[1:9])
	case len(k) > 0 && k[0] == 'l' && len(k) == 33:
		return "txlookup"
	}
	if len(ks) > 12 {
		ks = ks[:12]
	}
	return "other:" + ks
}

func itoa(b []byte) string {
	var n uint64
	for _, c := range b {
		n = n<<8 | uint64(c)
	}
	s := ""
	if n == 0 {
		return "0"
	}
	for n > 0 {
		s = string(rune('0'+n%10)) + s
		n /= 10
	}
	return s
}
