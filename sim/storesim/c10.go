// Package storesim holds the storage-level simulations: model-based operation
// histories over the trie (C10) and the state database (C09) on the simulated
// disk, with commit / flush / reopen / crash-before-flush and proof tampering.
package storesim

import (
	"bytes"
	"encoding/hex"
	"encoding/json"
	"fmt"
	"sort"
	"testing"

	"gitlab.com/aquachain/aquachain/aquadb"
	"gitlab.com/aquachain/aquachain/common"
	"gitlab.com/aquachain/aquachain/core/types"
	"gitlab.com/aquachain/aquachain/trie"
	"verifsim/kernel"
	"verifsim/refmodel"
	"verifsim/simdisk"
)

type TrieOp struct {
	Kind  string `json:"k"` // upd | del | get | hash | commit | flush | reopen | crash | openraw | limit | iter | prove
	Key   int    `json:"key,omitempty"`
	Val   string `json:"val,omitempty"` // hex
	Limit int    `json:"limit,omitempty"`
	Arg   int    `json:"arg,omitempty"`
}

type TriePlan struct {
	Mode    string   `json:"mode"`     // plain | secure | derive
	KeyMode string   `json:"key_mode"` // hashed | prefix
	Ops     []TrieOp `json:"ops"`
	Items   []string `json:"items,omitempty"` // derive mode
	Tamper  string   `json:"tamper"`          // sample | all
	// Scale multiplies what the simulated disk's batches report as their size, so that a flush
	// of a handful of nodes already crosses the database's batch boundary (100 KiB)
	Scale int `json:"disk_scale,omitempty"`
}

func DecodeTriePlan(raw json.RawMessage) (any, error) {
	p := &TriePlan{}
	err := json.Unmarshal(raw, p)
	return p, err
}
func HashTriePlan(p any) uint64 { b, _ := json.Marshal(p); return kernel.HashBytes(b) }

var prefixKeys = []string{"a", "ab", "abc", "abd", "b", "ba", "c", "\x00", "\x00\x00", "a\x00", "abcdefgh", "abcdefgi", "\xff", "\xff\xff\xff"}

func keyOf(mode string, i int) []byte {
	if mode == "prefix" {
		return []byte(prefixKeys[i%len(prefixKeys)])
	}
	return refmodel.Keccak([]byte{byte(i % 24)})
}

func GenTriePlan(rng *kernel.RNG, env *kernel.Env, k int) any {
	p := &TriePlan{Mode: []string{"plain", "plain", "secure", "derive"}[rng.Intn(4)], KeyMode: []string{"hashed", "prefix"}[rng.Intn(2)], Tamper: "sample"}
	if env.Thorough() {
		p.Tamper = "all"
	}
	if p.Mode == "derive" {
		for i := rng.Intn(60); i > 0; i-- {
			p.Items = append(p.Items, hex.EncodeToString(rng.Bytes([]int{1, 1, 5, 31, 32, 33, 60, 200}[rng.Intn(8)])))
		}
		return p
	}
	p.Scale = []int{0, 0, 300, 2000, 20000}[rng.Intn(5)]
	lens := []int{1, 1, 2, 20, 31, 32, 33, 64, 150}
	n := rng.Range(5, 70)
	for i := 0; i < n; i++ {
		op := TrieOp{Key: rng.Intn(24)}
		switch c := rng.Intn(100); {
		case c < 38:
			op.Kind = "upd"
			b := rng.Bytes(lens[rng.Intn(len(lens))])
			if len(b) == 1 && rng.Bool(0.5) {
				b[0] &= 0x7f // single bytes below 0x80 are an RLP corner
			}
			op.Val = hex.EncodeToString(b)
		case c < 46:
			op.Kind = "upd" // empty value means delete
		case c < 56:
			op.Kind = "del"
		case c < 64:
			op.Kind = "get"
		case c < 70:
			op.Kind = "hash"
		case c < 78:
			op.Kind = "commit"
		case c < 83:
			op.Kind = "flush"
		case c < 86:
			op.Kind = "reopen"
		case c < 89:
			op.Kind = "crash"
		case c < 91:
			op.Kind = "openraw"
		case c < 94:
			op.Kind = "limit"
			op.Limit = rng.Intn(4)
		case c < 95:
			op.Kind = "copy" // SecureTrie.Copy (what StateDB.Copy relies on); checked again at the end
		case c < 97:
			op.Kind = "iter"
		default:
			op.Kind = "prove"
			op.Arg = rng.Intn(1 << 16)
		}
		p.Ops = append(p.Ops, op)
	}
	return p
}

type rawList [][]byte

func (l rawList) Len() int            { return len(l) }
func (l rawList) GetRlp(i int) []byte { return l[i] }

type trieRun struct {
	p    *TriePlan
	col  *kernel.Collector
	disk *simdisk.Disk
	tdb  *trie.Database
	tr   *trie.Trie
	sec  *trie.SecureTrie
	// model: raw key -> value (for secure tries the trie key is keccak(raw key))
	model        map[string][]byte
	flushedModel map[string][]byte
	flushedRoot  common.Hash
	vs           []kernel.Violation
	step         int
	limit        uint16
	// copies taken with SecureTrie.Copy and the content they must keep
	copies     []*trie.SecureTrie
	copyModels []map[string][]byte
	// value copies of a plain Trie (the very mechanism SecureTrie.Copy consists of): with structured
	// keys these share extension nodes and leaves with the original, unhashed
	plainCopies     []*trie.Trie
	plainCopyModels []map[string][]byte
}

func (r *trieRun) add(class, format string, a ...any) {
	r.vs = append(r.vs, kernel.Violation{Class: class, Step: r.step, Detail: fmt.Sprintf(format, a...)})
}

func (r *trieRun) trieKey(k []byte) []byte {
	if r.p.Mode == "secure" {
		return refmodel.Keccak(k)
	}
	return k
}

func (r *trieRun) refRoot(m map[string][]byte) common.Hash {
	c := map[string][]byte{}
	for k, v := range m {
		c[string(r.trieKey([]byte(k)))] = v
	}
	return common.BytesToHash(refmodel.Root(c))
}

func cloneMap(m map[string][]byte) map[string][]byte {
	c := make(map[string][]byte, len(m))
	for k, v := range m {
		c[k] = v
	}
	return c
}

func (r *trieRun) open(root common.Hash, tdb *trie.Database) error {
	if r.p.Mode == "secure" {
		s, err := trie.NewSecure(root, tdb, r.limit)
		if err != nil {
			return err
		}
		r.sec, r.tr = s, nil
		return nil
	}
	t, err := trie.New(root, tdb)
	if err != nil {
		return err
	}
	t.SetCacheLimit(r.limit)
	r.tr, r.sec = t, nil
	return nil
}

func (r *trieRun) get(k []byte) ([]byte, error) {
	if r.sec != nil {
		return r.sec.TryGet(k)
	}
	return r.tr.TryGet(k)
}
func (r *trieRun) update(k, v []byte) error {
	if r.sec != nil {
		return r.sec.TryUpdate(k, v)
	}
	return r.tr.TryUpdate(k, v)
}
func (r *trieRun) del(k []byte) error {
	if r.sec != nil {
		return r.sec.TryDelete(k)
	}
	return r.tr.TryDelete(k)
}
func (r *trieRun) hash() common.Hash {
	if r.sec != nil {
		return r.sec.Hash()
	}
	return r.tr.Hash()
}
func (r *trieRun) commit() (common.Hash, error) {
	if r.sec != nil {
		return r.sec.Commit(nil)
	}
	return r.tr.Commit(nil)
}
func (r *trieRun) nodeIterator() trie.NodeIterator {
	if r.sec != nil {
		return r.sec.NodeIterator(nil)
	}
	return r.tr.NodeIterator(nil)
}

func ExecTrie(t *testing.T, pa any, col *kernel.Collector) []kernel.Violation {
	p := pa.(*TriePlan)
	r := &trieRun{p: p, col: col}
	defer func() {
		if x := recover(); x != nil {
			r.add("trie-panic", "panic in trie code at step %d: %v", r.step, x)
		}
	}()
	if p.Mode == "derive" {
		r.derive()
		return r.vs
	}
	r.disk = simdisk.New()
	if p.Scale > 1 {
		r.disk.Scale = p.Scale
		col.Inc("probe_flush_split_into_several_batches_possible")
	}
	r.tdb = trie.NewDatabase(r.disk)
	r.model, r.flushedModel = map[string][]byte{}, map[string][]byte{}
	r.flushedRoot = common.BytesToHash(refmodel.EmptyRoot)
	if err := r.open(common.Hash{}, r.tdb); err != nil {
		r.add("open-empty-failed", "%v", err)
		return r.vs
	}
	committedRoot := r.flushedRoot
	for i, op := range p.Ops {
		r.step = i
		col.Tick()
		k := keyOf(p.KeyMode, op.Key)
		switch op.Kind {
		case "upd":
			v, _ := hex.DecodeString(op.Val)
			if err := r.update(k, v); err != nil {
				r.add("update-error", "update(%x): %v", k, err)
				return r.vs
			}
			if len(v) == 0 {
				delete(r.model, string(k))
				col.Inc("op_update_empty_value")
			} else {
				r.model[string(k)] = v
			}
			col.Inc("op_update")
		case "del":
			if err := r.del(k); err != nil {
				r.add("delete-error", "delete(%x): %v", k, err)
				return r.vs
			}
			delete(r.model, string(k))
			col.Inc("op_delete")
		case "get":
			got, err := r.get(k)
			if err != nil {
				r.add("get-error", "get(%x): %v", k, err)
				return r.vs
			}
			if !bytes.Equal(got, r.model[string(k)]) {
				r.add("get-wrong-value", "get(%x) = %x, live content has %x", k, got, r.model[string(k)])
				return r.vs
			}
			col.Inc("op_get")
		case "hash":
			if h, want := r.hash(), r.refRoot(r.model); h != want {
				r.add("root-differs-from-reference", "Hash() = %x, reference Merkle-Patricia root of the %d-entry content = %x", h, len(r.model), want)
				return r.vs
			}
			col.Inc("roots_compared")
		case "commit":
			h, err := r.commit()
			if err != nil {
				r.add("commit-error", "%v", err)
				return r.vs
			}
			if want := r.refRoot(r.model); h != want {
				r.add("root-differs-from-reference", "Commit() = %x, reference root of the %d-entry content = %x", h, len(r.model), want)
				return r.vs
			}
			committedRoot = h
			col.Inc("roots_compared")
			col.Inc("op_commit")
		case "flush":
			h, err := r.commit()
			if err != nil {
				r.add("commit-error", "%v", err)
				return r.vs
			}
			committedRoot = h
			if err := r.tdb.Commit(h, false); err != nil {
				r.add("flush-error", "%v", err)
				return r.vs
			}
			r.flushedRoot, r.flushedModel = h, cloneMap(r.model)
			col.Inc("op_flush_to_disk")
		case "reopen":
			// reopen the last committed root through the same trie database (memory layer)
			h, err := r.commit()
			if err != nil {
				r.add("commit-error", "%v", err)
				return r.vs
			}
			committedRoot = h
			if err := r.open(h, r.tdb); err != nil {
				r.add("reopen-committed-root-failed", "trie.New(%x) on the same trie database: %v", h, err)
				return r.vs
			}
			r.compareAll("reopened-trie-differs")
			col.Inc("op_reopen_committed")
		case "crash":
			// crash before the next flush: only the disk survives
			r.tdb = trie.NewDatabase(r.disk)
			if err := r.open(r.flushedRoot, r.tdb); err != nil {
				r.add("reopen-flushed-root-failed", "trie.New(%x) on a fresh trie database over the disk: %v", r.flushedRoot, err)
				return r.vs
			}
			r.model = cloneMap(r.flushedModel)
			committedRoot = r.flushedRoot
			r.compareAll("reopened-trie-differs")
			col.Inc("fault_crash_before_flush")
		case "openraw":
			// open the last committed root on the bare disk: must fail unless its root node is there
			fresh := trie.NewDatabase(r.disk)
			onDisk, _ := r.disk.Has(committedRoot[:])
			var err error
			var t2 *trie.Trie
			if r.p.Mode == "secure" {
				_, err = trie.NewSecure(committedRoot, fresh, 0)
			} else {
				t2, err = trie.New(committedRoot, fresh)
			}
			empty := committedRoot == common.BytesToHash(refmodel.EmptyRoot)
			if !onDisk && !empty && err == nil {
				r.add("unflushed-root-opened-from-disk", "root %x was never flushed, yet trie.New on a fresh database succeeded", committedRoot)
				return r.vs
			}
			if !onDisk && !empty {
				if _, ok := err.(*trie.MissingNodeError); !ok {
					r.add("missing-node-wrong-error", "opening unflushed root %x: %T %v", committedRoot, err, err)
					return r.vs
				}
				col.Inc("probe_missing_node_error_seen")
			}
			_ = t2
		case "limit":
			r.limit = uint16(op.Limit)
			if r.tr != nil {
				r.tr.SetCacheLimit(r.limit)
			}
			col.Inc("op_cache_limit_change")
		case "copy":
			if r.sec != nil && len(r.copies) < 4 {
				r.copies = append(r.copies, r.sec.Copy())
				r.copyModels = append(r.copyModels, cloneMap(r.model))
				col.Inc("op_secure_trie_copy")
			}
			if r.tr != nil && len(r.plainCopies) < 4 {
				cp := *r.tr
				r.plainCopies = append(r.plainCopies, &cp)
				r.plainCopyModels = append(r.plainCopyModels, cloneMap(r.model))
				col.Inc("op_plain_trie_value_copy")
			}
		case "iter":
			r.iterate()
		case "prove":
			r.prove(k, op.Arg)
		}
		if len(r.vs) > 0 {
			return r.vs
		}
	}
	// copies taken earlier still hold exactly what the trie held then
	for ci, cp := range r.copies {
		cm := r.copyModels[ci]
		for i := 0; i < 24; i++ {
			k := keyOf(p.KeyMode, i)
			got, err := cp.TryGet(k)
			if err != nil || !bytes.Equal(got, cm[string(k)]) {
				r.add("trie-copy-changed-with-original", "copy %d: get(%x) = %x (%v), it held %x when it was taken", ci, k, got, err, cm[string(k)])
				return r.vs
			}
		}
		if h, want := cp.Hash(), r.refRoot(cm); h != want {
			r.add("trie-copy-changed-with-original", "copy %d hashes to %x, the reference root of what it held is %x", ci, h, want)
			return r.vs
		}
	}
	for ci, cp := range r.plainCopies {
		cm := r.plainCopyModels[ci]
		for i := 0; i < 24; i++ {
			k := keyOf(p.KeyMode, i)
			got, err := cp.TryGet(k)
			if err != nil || !bytes.Equal(got, cm[string(k)]) {
				r.add("trie-copy-changed-with-original", "value copy %d of the plain trie: get(%x) = %x (%v), it held %x when it was taken", ci, k, got, err, cm[string(k)])
				return r.vs
			}
		}
		if h, want := cp.Hash(), r.refRoot(cm); h != want {
			r.add("trie-copy-changed-with-original", "value copy %d of the plain trie hashes to %x, the reference root of what it held is %x", ci, h, want)
			return r.vs
		}
	}
	// final: the trie equals the model, whatever the history
	r.compareAll("final-content-differs")
	if h, want := r.hash(), r.refRoot(r.model); h != want && len(r.vs) == 0 {
		r.add("root-differs-from-reference", "final Hash() = %x, reference root = %x", h, want)
	}
	col.Add("cache_unloads", trie.CacheUnloads())
	kernel.SetNonTrivial()
	return r.vs
}

func (r *trieRun) compareAll(class string) {
	for i := 0; i < 24; i++ {
		k := keyOf(r.p.KeyMode, i)
		got, err := r.get(k)
		if err != nil {
			r.add(class, "get(%x): %v", k, err)
			return
		}
		if !bytes.Equal(got, r.model[string(k)]) {
			r.add(class, "get(%x) = %x, expected %x", k, got, r.model[string(k)])
			return
		}
	}
}

func (r *trieRun) iterate() {
	it := trie.NewIterator(r.nodeIterator())
	type kv struct{ k, v string }
	var got []kv
	for it.Next() {
		got = append(got, kv{string(it.Key), string(it.Value)})
	}
	if it.Err != nil {
		r.add("iteration-error", "%v", it.Err)
		return
	}
	var want []kv
	for k, v := range r.model {
		want = append(want, kv{string(r.trieKey([]byte(k))), string(v)})
	}
	sort.Slice(want, func(i, j int) bool { return want[i].k < want[j].k })
	ordered := r.p.KeyMode == "hashed" || r.p.Mode == "secure"
	if !ordered {
		sort.Slice(got, func(i, j int) bool { return got[i].k < got[j].k })
	}
	if len(got) != len(want) {
		r.add("iteration-differs-from-content", "iterator yielded %d entries, live content has %d", len(got), len(want))
		return
	}
	for i := range got {
		if got[i] != want[i] {
			r.add("iteration-differs-from-content", "entry %d: iterator (%x -> %x), content (%x -> %x)", i, got[i].k, got[i].v, want[i].k, want[i].v)
			return
		}
	}
	r.col.Inc("op_iterate")
}

// proofDB is what an honest verifier builds from a received proof: every node
// stored under the hash of its bytes.
func proofDB(nodes [][]byte) *aquadb.MemDatabase {
	db := aquadb.NewMemDatabase()
	for _, n := range nodes {
		db.Put(refmodel.Keccak(n), n)
	}
	return db
}

func (r *trieRun) prove(k []byte, arg int) {
	if len(r.model) == 0 {
		// an empty trie has no root node, hence no proof nodes at all: skipped
		r.col.Inc("prove_skipped_empty_trie")
		return
	}
	root := r.hash()
	col := aquadb.NewMemDatabase()
	var err error
	tk := r.trieKey(k)
	if r.sec != nil {
		err = r.sec.Prove(tk, 0, col)
	} else {
		err = r.tr.Prove(k, 0, col)
	}
	if err != nil {
		r.add("prove-error", "Prove(%x): %v", k, err)
		return
	}
	var nodes [][]byte
	keys := col.Keys()
	sort.Slice(keys, func(i, j int) bool { return bytes.Compare(keys[i], keys[j]) < 0 })
	for _, kk := range keys {
		v, _ := col.Get(kk)
		nodes = append(nodes, v)
	}
	want := r.model[string(k)]
	val, verr, _ := trie.VerifyProof(root, tk, proofDB(nodes))
	if verr != nil || !bytes.Equal(val, want) {
		r.add("proof-does-not-verify", "key %x: proof of %d nodes verifies to (%x, %v), live value is %x", k, len(nodes), val, verr, want)
		return
	}
	r.col.Inc("proofs_verified")
	if want == nil {
		r.col.Inc("probe_absence_proof")
	}
	// fault: every (thorough) / a sample of single-byte alterations, and node omission
	for ni := range nodes {
		positions := []int{arg % len(nodes[ni]), (arg / 7) % len(nodes[ni]), len(nodes[ni]) - 1, 0}
		if r.p.Tamper == "all" {
			positions = positions[:0]
			for i := range nodes[ni] {
				positions = append(positions, i)
			}
		}
		for _, pos := range positions {
			for _, x := range []byte{0x01, 0x80, 0xff} {
				alt := make([][]byte, len(nodes))
				copy(alt, nodes)
				b := append([]byte{}, nodes[ni]...)
				b[pos] ^= x
				alt[ni] = b
				v2, e2, _ := trie.VerifyProof(root, tk, proofDB(alt))
				r.col.Inc("fault_proof_byte_altered")
				if e2 == nil && !bytes.Equal(v2, want) {
					r.add("altered-proof-verifies-to-different-value", "key %x: proof node %d byte %d ^ %#x verifies to %x, the live value is %x", k, ni, pos, x, v2, want)
					return
				}
			}
		}
		// omission
		alt := append(append([][]byte{}, nodes[:ni]...), nodes[ni+1:]...)
		v2, e2, _ := trie.VerifyProof(root, tk, proofDB(alt))
		r.col.Inc("fault_proof_node_omitted")
		if e2 == nil && !bytes.Equal(v2, want) {
			r.add("altered-proof-verifies-to-different-value", "key %x: proof without node %d verifies to %x, live value %x", k, ni, v2, want)
			return
		}
	}
}

func (r *trieRun) derive() {
	var items rawList
	content := map[string][]byte{}
	for i, h := range r.p.Items {
		b, _ := hex.DecodeString(h)
		items = append(items, b)
		var idx []byte
		for x := i; x > 0; x >>= 8 {
			idx = append([]byte{byte(x)}, idx...)
		}
		content[string(refmodel.RlpBytes(idx))] = b
	}
	got := types.DeriveSha(items)
	want := common.BytesToHash(refmodel.Root(content))
	r.col.Inc("roots_compared")
	r.col.Inc("derive_sha_lists")
	if got != want {
		r.add("derive-sha-differs-from-reference", "DeriveSha of %d items = %x, reference root = %x", len(items), got, want)
	}
	kernel.SetNonTrivial()
}

func ShrinkTriePlan(pa any) []any {
	p := pa.(*TriePlan)
	var out []any
	clone := func() *TriePlan {
		b, _ := json.Marshal(p)
		q := &TriePlan{}
		json.Unmarshal(b, q)
		return q
	}
	for size := len(p.Ops) / 2; size >= 1; size /= 2 {
		for at := len(p.Ops) - size; at >= 0; at -= size {
			q := clone()
			q.Ops = append(append([]TrieOp{}, p.Ops[:at]...), p.Ops[at+size:]...)
			out = append(out, q)
		}
	}
	for i := range p.Items {
		q := clone()
		q.Items = append(append([]string{}, p.Items[:i]...), p.Items[i+1:]...)
		out = append(out, q)
	}
	return out
}
