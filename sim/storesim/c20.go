package storesim

import (
	"bytes"
	"encoding/hex"
	"encoding/json"
	"fmt"
	"os"
	"path/filepath"
	"strings"
	"testing"
	"testing/cryptotest"
	"time"
	"unicode/utf8"

	"github.com/btcsuite/btcd/btcec/v2"
	"github.com/pborman/uuid"
	"gitlab.com/aquachain/aquachain/aqua/accounts"
	"gitlab.com/aquachain/aquachain/aqua/accounts/keystore"
	"gitlab.com/aquachain/aquachain/common"
	"gitlab.com/aquachain/aquachain/crypto"
	"verifsim/kernel"
	"verifsim/refmodel"
)

// ---- C20: key files under stored-byte corruption and near-miss passphrases ----------------

// KeyPlan is one key, one passphrase, one stored form and the fault set.
type KeyPlan struct {
	Key    string `json:"key"`  // 64 hex chars
	Pass   string `json:"pass"` // passphrase (may be empty / non-ASCII)
	Form   string `json:"form"` // v3-scrypt (the repository's encoder) | v3-scrypt-ref | v3-pbkdf2 | v1-scrypt | v1-pbkdf2 | plain
	N      int    `json:"n"`
	P      int    `json:"p"`
	C      int    `json:"c,omitempty"`
	Rand   uint64 `json:"rand"`   // seeds crypto/rand (salt, IV of the repository's encoder) and the harness's own salt/IV
	Stride int    `json:"stride"` // 1 = every byte position of the file; k = every k-th (offset Rand%k)
	Level  string `json:"level"`  // "file" (DecryptKey on bytes) | "store" (KeyStore over a directory)
	// minimised replays: a single fault
	OnlyPos   int    `json:"only_pos,omitempty"` // 1-based byte position
	OnlyByte  string `json:"only_byte,omitempty"`
	OnlyKind  string `json:"only_kind,omitempty"` // sub | del | trunc | pass
	OnlyPass  string `json:"only_pass,omitempty"`
	OnlyStore string `json:"only_store,omitempty"`
}

func DecodeKeyPlan(raw json.RawMessage) (any, error) {
	p := &KeyPlan{}
	return p, json.Unmarshal(raw, p)
}
func HashKeyPlan(p any) uint64 { b, _ := json.Marshal(p); return kernel.HashBytes(b) }

var passPool = []string{"", "a", "hunter2", "correct horse battery staple", "pässwörd-ünïcode", "пароль", "密码がとても長い", " leading and trailing ", "tab\tand\nnewline", "\u0000nul", "0", "null", `quote"back\slash`}

func GenKeyPlan(rng *kernel.RNG, env *kernel.Env, k int) any {
	p := &KeyPlan{Rand: rng.Uint64(), Stride: 1, Level: "file"}
	kb := rng.Bytes(32)
	switch rng.Intn(6) {
	case 0:
		kb[0] = 0
	case 1:
		kb[0], kb[1] = 0, 0
	case 2:
		kb[0], kb[1], kb[2] = 0, 0, 0
	case 3:
		for i := 0; i < 20; i++ {
			kb[i] = 0 // tiny scalar
		}
	}
	if kb[31] == 0 {
		kb[31] = 1
	}
	kb[0] &= 0x7f // below the group order
	p.Key = hex.EncodeToString(kb)
	switch rng.Intn(4) {
	case 0:
		n := rng.Range(1, 40)
		b := make([]byte, n)
		for i := range b {
			b[i] = byte(rng.Range(32, 126))
		}
		p.Pass = string(b)
	case 1:
		n := rng.Range(60, 300)
		p.Pass = strings.Repeat(passPool[rng.Intn(len(passPool))]+"x", n)[:n]
		if !utf8.ValidString(p.Pass) {
			p.Pass = strings.ToValidUTF8(p.Pass, "?")
		}
	default:
		p.Pass = passPool[rng.Intn(len(passPool))]
	}
	forms := []string{"v3-scrypt", "v3-scrypt", "v3-scrypt-ref", "v3-pbkdf2", "v1-scrypt", "v1-pbkdf2", "plain"}
	p.Form = forms[rng.Intn(len(forms))]
	p.N = 1 << uint(rng.Range(1, 5))
	p.P = rng.Range(1, 3)
	p.C = rng.Range(1, 64)
	switch {
	case k%7 == 3 && p.Form != "plain":
		// the standard "light" cost parameters, sampled positions
		p.N, p.P, p.C = keystore.LightScryptN, keystore.LightScryptP, 10240
		p.Stride = 23
		if env.Thorough() {
			p.Stride = 5
		}
	case k%5 == 1:
		p.Level = "store"
		if p.Form == "v3-scrypt-ref" {
			p.Form = "v3-scrypt"
		}
		p.Stride = 9
		if env.Thorough() {
			p.Stride = 3
		}
	}
	if len(p.Pass) > 80 && p.Stride == 1 {
		p.Stride = 1
	}
	return p
}

type keyRun struct {
	p    *KeyPlan
	col  *kernel.Collector
	vs   []kernel.Violation
	priv []byte
	addr common.Address
	file []byte
	// the other passphrase being tried (for classification)
	curPass string
}

func (r *keyRun) add(class string, step int, f string, a ...any) {
	for _, v := range r.vs {
		if v.Class == class {
			return
		}
	}
	r.vs = append(r.vs, kernel.Violation{Class: class, Step: step, Detail: fmt.Sprintf(f, a...)})
}

// decrypt calls the real DecryptKey; a panic is reported as such.
func decryptGuarded(file []byte, pass string) (k *keystore.Key, err error, panicked string) {
	defer func() {
		if r := recover(); r != nil {
			panicked = fmt.Sprint(r)
		}
	}()
	k, err = keystore.DecryptKey(file, pass)
	return
}

func (r *keyRun) build() error {
	p := r.p
	var err error
	r.priv, err = hex.DecodeString(p.Key)
	if err != nil || len(r.priv) != 32 {
		return fmt.Errorf("bad key in plan")
	}
	pk, _ := btcec.PrivKeyFromBytes(r.priv)
	r.addr = crypto.PubkeyToAddress(pk.PubKey())
	rng := kernel.NewRNG(p.Rand)
	id := uuid.UUID(rng.Bytes(16))
	key := &keystore.Key{Id: id, Address: r.addr, PrivateKey: pk}
	sp := &refmodel.SecretParams{Version: 3, KDF: "scrypt", N: p.N, R: 8, P: p.P, C: p.C, DKLen: 32, Salt: rng.Bytes(32), IV: rng.Bytes(16), ID: id.String(), Address: hex.EncodeToString(r.addr[:])}
	switch p.Form {
	case "v3-scrypt":
		r.file, err = keystore.EncryptKey(key, p.Pass, p.N, p.P)
	case "v3-scrypt-ref":
		r.file, err = refmodel.EncodeSecret(r.priv, p.Pass, sp)
	case "v3-pbkdf2":
		sp.KDF = "pbkdf2"
		r.file, err = refmodel.EncodeSecret(r.priv, p.Pass, sp)
	case "v1-scrypt":
		sp.Version = 1
		r.file, err = refmodel.EncodeSecret(r.priv, p.Pass, sp)
	case "v1-pbkdf2":
		sp.Version, sp.KDF = 1, "pbkdf2"
		r.file, err = refmodel.EncodeSecret(r.priv, p.Pass, sp)
	case "plain":
		r.file, err = json.Marshal(key)
	default:
		err = fmt.Errorf("form %q", p.Form)
	}
	return err
}

// replacement characters for position i: neighbours in the alphabet the field
// uses, plus characters that change the JSON type or sign of a value.
func replacements(orig byte, rng *kernel.RNG) []byte {
	set := []byte{orig ^ 1, orig ^ 0x20, '0', '9', 'f', 'a', '-', '.', 'e', '"', '1'}
	set = append(set, byte(rng.Range(32, 126)))
	var out []byte
	seen := map[byte]bool{orig: true}
	for _, c := range set {
		if !seen[c] {
			seen[c] = true
			out = append(out, c)
		}
	}
	return out
}

// nearMisses: every passphrase at edit distance one by substitution (2 per
// position), deletion and insertion, plus a few classic confusions.
func nearMisses(pass string, stride int) []string {
	rs := []rune(pass)
	seen := map[string]bool{pass: true}
	var out []string
	put := func(s string) {
		if !seen[s] && utf8.ValidString(s) {
			seen[s] = true
			out = append(out, s)
		}
	}
	for i := 0; i < len(rs); i += stride {
		for _, c := range []rune{rs[i] ^ 1, rs[i] ^ 0x20, rs[i] + 1} {
			q := append([]rune{}, rs...)
			q[i] = c
			put(string(q))
		}
		put(string(append(append([]rune{}, rs[:i]...), rs[i+1:]...)))
		put(string(append(append(append([]rune{}, rs[:i]...), 'x'), rs[i:]...)))
	}
	put(pass + " ")
	put(" " + pass)
	put(pass + "\n")
	put(pass + "\x00")
	put(strings.ToUpper(pass))
	put(strings.ToLower(pass))
	put(strings.TrimSpace(pass))
	put("")
	put(pass + pass)
	return out
}

func fieldOf(file []byte, pos int) string {
	path, inName := refmodel.JSONPathAt(file, pos)
	if path == "" {
		return "structure"
	}
	if inName {
		return "name-of-" + path
	}
	return path
}

func ExecKey(t *testing.T, pa any, col *kernel.Collector) []kernel.Violation {
	p := pa.(*KeyPlan)
	cryptotest.SetGlobalRandom(t, p.Rand)
	r := &keyRun{p: p, col: col}
	if err := r.build(); err != nil {
		if p.Form == "v3-scrypt" {
			r.add("encrypt-fails", 0, "EncryptKey: %v", err)
			return r.vs
		}
		return []kernel.Violation{{Class: "harness-panic", Detail: "C20 build: " + err.Error()}}
	}
	col.Inc("files_" + p.Form)
	if r.priv[0] == 0 {
		col.Inc("probe_key_with_leading_zero_byte")
	}
	if p.Pass == "" {
		col.Inc("probe_empty_passphrase")
	}
	if len(p.Pass) != len([]rune(p.Pass)) {
		col.Inc("probe_non_ascii_passphrase")
	}
	if p.Level == "store" {
		r.storeLevel(t)
	} else {
		r.fileLevel()
	}
	kernel.SetNonTrivial()
	return r.vs
}

// judge decides one decryption attempt of an altered file / other passphrase.
func (r *keyRun) judge(kind, field string, step int, k *keystore.Key, err error, panicked string, what string, mustFail bool) {
	col := r.col
	col.Tick()
	col.Inc("attempts_" + kind)
	switch {
	case panicked != "":
		r.add("panic-on-"+kind+"/"+field, step, "%s: DecryptKey panicked: %s", what, panicked)
	case err != nil:
		col.Inc("rejected_" + kind)
	case k == nil || k.PrivateKey == nil:
		r.add("nil-key-without-error/"+field, step, "%s: no error and no key", what)
	default:
		got := k.PrivateKey.Serialize()
		same := bytes.Equal(got, r.priv) && k.Address == r.addr
		if same && !mustFail {
			col.Inc("still_original_key_" + kind)
			return
		}
		if same {
			r.add("other-passphrase-unlocks"+r.equivClass(), step, "%s: decrypted to the original key", what)
			return
		}
		cls := "different-key-from-" + kind + "/" + field
		r.add(cls, step, "%s: DecryptKey returned key %x… address %x instead of an error (original address %x)", what, got[:4], k.Address, r.addr)
	}
}

// hmacEquivalent: both KDFs key an HMAC with the passphrase, and HMAC pads keys
// shorter than its block size with zero bytes — two passphrases of at most 64
// bytes that differ only in trailing NUL bytes are the same HMAC key.
func hmacEquivalent(a, b string) bool {
	return len(a) <= 64 && len(b) <= 64 && strings.TrimRight(a, "\x00") == strings.TrimRight(b, "\x00")
}

func (r *keyRun) equivClass() string {
	if hmacEquivalent(r.curPass, r.p.Pass) {
		return "/differing-only-in-trailing-nul-bytes"
	}
	return ""
}

func (r *keyRun) fileLevel() {
	p, col := r.p, r.col
	pass := p.Pass
	if p.Form == "plain" {
		r.plainLevel()
		return
	}
	// 1. round trip
	k, err, pan := decryptGuarded(r.file, pass)
	if pan != "" || err != nil || k == nil {
		r.add("round-trip-fails/"+p.Form, 0, "key %s pass %q form %s: DecryptKey of the freshly written file: err=%v panic=%q", p.Key, pass, p.Form, err, pan)
		return
	}
	if !bytes.Equal(k.PrivateKey.Serialize(), r.priv) || k.Address != r.addr {
		r.add("round-trip-yields-different-key/"+p.Form, 0, "key %s form %s: got key %x address %x want address %x", p.Key, p.Form, k.PrivateKey.Serialize(), k.Address, r.addr)
		return
	}
	col.Inc("round_trips_ok")
	rng := kernel.NewRNG(p.Rand ^ 0xc20)
	single := p.OnlyKind != ""
	// 2. near-miss passphrases
	if !single || p.OnlyKind == "pass" {
		ps := nearMisses(pass, 1)
		if p.N >= 1024 && len(ps) > 24 {
			ps = ps[:24]
		}
		if single {
			ps = []string{p.OnlyPass}
		}
		for i, q := range ps {
			r.curPass = q
			if hmacEquivalent(q, pass) {
				col.Inc("probe_passphrase_differing_only_in_trailing_nul")
			}
			k, err, pan := decryptGuarded(r.file, q)
			r.judge("other-passphrase", p.Form, i, k, err, pan, fmt.Sprintf("passphrase %q instead of %q", q, pass), true)
		}
	}
	// 3. every single-character substitution and deletion, every truncation
	off := 0
	if p.Stride > 1 {
		off = int(p.Rand % uint64(p.Stride))
	}
	for pos := off; pos < len(r.file); pos += p.Stride {
		if single && (p.OnlyKind == "pass" || p.OnlyPos-1 != pos) {
			continue
		}
		field := fieldOf(r.file, pos)
		reps := replacements(r.file[pos], rng)
		if p.N >= 1024 {
			reps = reps[:3]
		}
		if !single || p.OnlyKind == "sub" {
			for _, c := range reps {
				if single && string(c) != p.OnlyByte {
					continue
				}
				alt := append([]byte{}, r.file...)
				alt[pos] = c
				k, err, pan := decryptGuarded(alt, pass)
				r.judge("altered-file", field, pos+1, k, err, pan, fmt.Sprintf("byte %d (%s) %q -> %q", pos+1, field, string(r.file[pos:pos+1]), string([]byte{c})), false)
			}
		}
		if !single || p.OnlyKind == "del" {
			alt := append(append([]byte{}, r.file[:pos]...), r.file[pos+1:]...)
			k, err, pan := decryptGuarded(alt, pass)
			r.judge("altered-file", field, pos+1, k, err, pan, fmt.Sprintf("byte %d (%s) deleted", pos+1, field), false)
		}
		if !single || p.OnlyKind == "trunc" {
			k, err, pan := decryptGuarded(r.file[:pos], pass)
			r.judge("torn-file", "truncated", pos+1, k, err, pan, fmt.Sprintf("file truncated to %d bytes", pos), false)
		}
	}
}

// plainLevel: the unencrypted store (keystore_plain.go) through a directory.
func (r *keyRun) plainLevel() {
	dir, err := os.MkdirTemp("", "c20-")
	if err != nil {
		r.add("harness-panic", 0, "%v", err)
		return
	}
	defer os.RemoveAll(dir)
	ks := keystore.NewPlaintextKeyStore(dir)
	pk, _ := btcec.PrivKeyFromBytes(r.priv)
	acc, err := ks.ImportECDSA(pk, r.p.Pass)
	if err != nil {
		r.add("round-trip-fails/plain", 0, "ImportECDSA: %v", err)
		return
	}
	if acc.Address != r.addr {
		r.add("round-trip-yields-different-key/plain", 0, "address %x want %x", acc.Address, r.addr)
		return
	}
	stored, err := os.ReadFile(acc.URL.Path)
	if err != nil {
		r.add("round-trip-fails/plain", 0, "%v", err)
		return
	}
	r.signCheck(ks, acc, r.p.Pass, "plain round trip", 0)
	r.col.Inc("round_trips_ok")
	// the stored form must hold the full 32-byte scalar and re-read as the same key
	var doc struct{ PrivateKey string }
	if json.Unmarshal(stored, &doc) != nil || doc.PrivateKey != r.p.Key {
		r.add("round-trip-yields-different-key/plain", 0, "plain key file stores %q for key %s", doc.PrivateKey, r.p.Key)
	}
	ks2 := keystore.NewPlaintextKeyStore(dir)
	if accs := ks2.Accounts(); len(accs) != 1 || accs[0].Address != r.addr {
		r.add("round-trip-yields-different-key/plain", 0, "a second store over the directory lists %v", accs)
		return
	}
	r.signCheck(ks2, acc, "", "plain store reopened", 0)
}

// signCheck: unlock and sign; the signature must recover to the original
// address, or the unlock must fail.
func (r *keyRun) signCheck(ks *keystore.KeyStore, acc accounts.Account, pass, what string, step int) (unlocked bool) {
	defer func() {
		if rec := recover(); rec != nil {
			r.add("panic-on-altered-file/store", step, "%s: %v", what, rec)
		}
	}()
	r.col.Tick()
	r.col.Inc("attempts_store")
	if err := ks.Unlock(acc, pass); err != nil {
		r.col.Inc("rejected_store")
		return false
	}
	msg := crypto.Keccak256([]byte("c20 " + what))
	sig, err := ks.SignHashAllowed(acc, msg)
	if err != nil {
		r.add("unlocked-account-cannot-sign", step, "%s: %v", what, err)
		return true
	}
	pub, err := crypto.SigToPub(msg, sig)
	if err != nil {
		r.add("unlocked-account-cannot-sign", step, "%s: signature does not recover: %v", what, err)
		return true
	}
	if got := crypto.PubkeyToAddress(pub); got != r.addr {
		r.add("signature-by-different-key/store", step, "%s: signature after Unlock recovers to %x, the stored key's address is %x", what, got, r.addr)
	}
	r.col.Inc("signatures_recovered_to_original")
	return true
}

// storeLevel: the KeyStore manager over a directory whose file the simulator rewrites.
func (r *keyRun) storeLevel(t *testing.T) {
	p := r.p
	dir, err := os.MkdirTemp("", "c20-")
	if err != nil {
		r.add("harness-panic", 0, "%v", err)
		return
	}
	defer os.RemoveAll(dir)
	if p.Form == "plain" {
		r.plainLevel()
		return
	}
	name := filepath.Join(dir, "UTC--2000-01-01T00-00-00.000000000Z--"+hex.EncodeToString(r.addr[:]))
	if err := os.WriteFile(name, r.file, 0o600); err != nil {
		r.add("harness-panic", 0, "%v", err)
		return
	}
	ks := keystore.NewKeyStore(dir, p.N, p.P)
	accs := ks.Accounts()
	if len(accs) != 1 || accs[0].Address != r.addr {
		r.add("stored-file-not-listed/"+p.Form, 0, "KeyStore over a directory holding the key file lists %d accounts", len(accs))
		return
	}
	acc := accs[0]
	want := func(op string) bool { return p.OnlyStore == "" || p.OnlyStore == op }
	// round trip through Unlock + sign
	if want("unlock") {
		if !r.signCheck(ks, acc, p.Pass, "unlock with the right passphrase", 0) {
			r.add("round-trip-fails/"+p.Form, 0, "Unlock with the right passphrase fails")
			return
		}
		ks.Lock(acc.Address)
		r.col.Inc("round_trips_ok")
	}
	// near-miss passphrases through Unlock / Export / Update / SignHashWithPassphrase
	if want("nearmiss") {
		ps := nearMisses(p.Pass, 3)
		if len(ps) > 12 {
			ps = ps[:12]
		}
		for i, q := range ps {
			r.col.Tick()
			r.col.Inc("attempts_other-passphrase")
			r.curPass = q
			if hmacEquivalent(q, p.Pass) {
				// same HMAC key: recorded finding, reported by the file-level runs
				ks.Lock(acc.Address)
				continue
			}
			if err := ks.Unlock(acc, q); err == nil {
				r.add("other-passphrase-unlocks", i, "Unlock with %q instead of %q succeeds", q, p.Pass)
			}
			if _, err := ks.Export(acc, q, "new"); err == nil {
				r.add("other-passphrase-unlocks", i, "Export with %q instead of %q succeeds", q, p.Pass)
			}
			if _, err := ks.SignHashWithPassphrase(acc, q, make([]byte, 32)); err == nil {
				r.add("other-passphrase-unlocks", i, "SignHashWithPassphrase with %q instead of %q succeeds", q, p.Pass)
			}
			if err := ks.Update(acc, q, "new"); err == nil {
				r.add("other-passphrase-unlocks", i, "Update with %q instead of %q succeeds", q, p.Pass)
			}
			r.col.Inc("rejected_other-passphrase")
		}
		ks.Lock(acc.Address)
		// the same while the account is already unlocked: an open session is no passphrase
		if err := ks.Unlock(acc, p.Pass); err == nil {
			for i, q := range ps {
				if hmacEquivalent(q, p.Pass) {
					continue
				}
				r.col.Tick()
				r.col.Inc("attempts_other-passphrase")
				if err := ks.Unlock(acc, q); err == nil {
					r.add("other-passphrase-unlocks/while-already-unlocked", i, "Unlock with %q instead of %q succeeds while the account is unlocked", q, p.Pass)
				}
				if err := ks.TimedUnlock(acc, q, time.Minute); err == nil {
					r.add("other-passphrase-unlocks/while-already-unlocked", i, "TimedUnlock with %q instead of %q succeeds while the account is unlocked", q, p.Pass)
				}
			}
			ks.Lock(acc.Address)
		}
	}
	// Export -> Import into a second store -> Update -> unlock
	if want("export") {
		exported, err := ks.Export(acc, p.Pass, p.Pass+"2")
		if err != nil {
			r.add("export-fails/"+p.Form, 0, "Export with the right passphrase: %v", err)
			return
		}
		k, err, pan := decryptGuarded(exported, p.Pass+"2")
		if pan != "" || err != nil || !bytes.Equal(k.PrivateKey.Serialize(), r.priv) {
			r.add("export-yields-different-key/"+p.Form, 0, "exported file does not decrypt to the stored key (err=%v panic=%q)", err, pan)
			return
		}
		dir2, _ := os.MkdirTemp("", "c20b-")
		defer os.RemoveAll(dir2)
		ks2 := keystore.NewKeyStore(dir2, p.N, p.P)
		acc2, err := ks2.Import(exported, p.Pass+"2", p.Pass+"3")
		if err != nil || acc2.Address != r.addr {
			r.add("import-yields-different-account/"+p.Form, 0, "Import of the exported file: address %x err %v, want %x", acc2.Address, err, r.addr)
			return
		}
		if err := ks2.Update(acc2, p.Pass+"3", p.Pass); err != nil {
			r.add("update-fails/"+p.Form, 0, "Update with the right passphrase: %v", err)
			return
		}
		if err := ks2.Unlock(acc2, p.Pass+"3"); err == nil {
			r.add("other-passphrase-unlocks", 0, "after Update the old passphrase still unlocks")
		}
		if !r.signCheck(ks2, acc2, p.Pass, "after Export/Import/Update", 0) {
			r.add("round-trip-fails/"+p.Form, 0, "after Export/Import/Update the new passphrase does not unlock")
		}
		r.col.Inc("export_import_update_ok")
		// Import of altered exported files into fresh stores
		rng := kernel.NewRNG(p.Rand ^ 0x1c20)
		off := int(p.Rand % uint64(max(p.Stride, 1)))
		n := 0
		for pos := off; pos < len(exported) && n < 40; pos += max(p.Stride, 1) * 3 {
			if p.OnlyPos != 0 && p.OnlyPos-1 != pos {
				continue
			}
			n++
			field := fieldOf(exported, pos)
			c := replacements(exported[pos], rng)[0]
			if p.OnlyByte != "" {
				c = p.OnlyByte[0]
			}
			alt := append([]byte{}, exported...)
			alt[pos] = c
			dir3, _ := os.MkdirTemp("", "c20c-")
			ks3 := keystore.NewKeyStore(dir3, p.N, p.P)
			r.col.Tick()
			r.col.Inc("attempts_import-altered")
			func() {
				defer func() {
					if rec := recover(); rec != nil {
						r.add("panic-on-altered-file/"+field, pos+1, "Import of exported file with byte %d (%s) %q -> %q: %v", pos+1, field, string(exported[pos:pos+1]), string([]byte{c}), rec)
					}
				}()
				a3, err := ks3.Import(alt, p.Pass+"2", "x")
				if err == nil && a3.Address != r.addr {
					r.add("different-key-from-altered-file/"+field, pos+1, "Import of the exported file with byte %d (%s) %q creates account %x (original %x) -> %q", pos+1, field, string(exported[pos:pos+1]), a3.Address, r.addr, string([]byte{c}))
				}
			}()
			os.RemoveAll(dir3)
		}
	}
	// the stored file altered under the store's feet
	if want("tamper") {
		rng := kernel.NewRNG(p.Rand ^ 0x2c20)
		off := int(p.Rand % uint64(max(p.Stride, 1)))
		for pos := off; pos < len(r.file); pos += max(p.Stride, 1) {
			if p.OnlyPos != 0 && p.OnlyPos-1 != pos {
				continue
			}
			field := fieldOf(r.file, pos)
			c := replacements(r.file[pos], rng)[0]
			if p.OnlyByte != "" {
				c = p.OnlyByte[0]
			}
			alt := append([]byte{}, r.file...)
			alt[pos] = c
			os.WriteFile(name, alt, 0o600)
			ks.Lock(acc.Address)
			r.signCheck(ks, acc, p.Pass, fmt.Sprintf("stored file byte %d (%s) %q -> %q", pos+1, field, string(r.file[pos:pos+1]), string([]byte{c})), pos+1)
		}
		os.WriteFile(name, r.file, 0o600)
	}
	// Update in place on a file another tool wrote (indented JSON, other forms:
	// a different length than the store's own output)
	if want("update") && len(r.vs) == 0 {
		var pretty bytes.Buffer
		if json.Indent(&pretty, r.file, "", "    ") == nil {
			os.WriteFile(name, pretty.Bytes(), 0o600)
		}
		ks.Lock(acc.Address)
		if !r.signCheck(ks, acc, p.Pass, "unlock of the re-indented key file", 0) {
			r.add("round-trip-fails/"+p.Form, 0, "the key file re-indented (same JSON document) no longer unlocks")
			return
		}
		ks.Lock(acc.Address)
		if err := ks.Update(acc, p.Pass, p.Pass+"u"); err != nil {
			r.add("update-fails/"+p.Form, 0, "Update with the right passphrase: %v", err)
			return
		}
		if err := ks.Unlock(acc, p.Pass); err == nil && !hmacEquivalent(p.Pass, p.Pass+"u") {
			r.add("other-passphrase-unlocks", 0, "after Update the old passphrase still unlocks")
		}
		ks.Lock(acc.Address)
		if !r.signCheck(ks, acc, p.Pass+"u", "after Update in place", 0) {
			stored, _ := os.ReadFile(name)
			r.add("key-lost-by-update/"+p.Form, 0, "Update reported success but the stored file no longer unlocks with the new passphrase (file now %d bytes, valid JSON: %v)", len(stored), json.Valid(stored))
		}
		r.col.Inc("update_in_place_ok")
	}
}

func ShrinkKeyPlan(pa any) []any {
	p := pa.(*KeyPlan)
	var out []any
	if p.N > 2 {
		q := *p
		q.N = 2
		out = append(out, &q)
	}
	if len(p.Pass) > 3 {
		q := *p
		q.Pass = "abc"
		out = append(out, &q)
	}
	if p.P > 1 {
		q := *p
		q.P = 1
		out = append(out, &q)
	}
	return out
}

// NarrowKeyPlan pins the plan to the single fault the violation names.
func NarrowKeyPlan(pa any, v kernel.Violation) any {
	p := pa.(*KeyPlan)
	q := *p
	d := v.Detail
	switch {
	case strings.HasPrefix(v.Class, "other-passphrase-unlocks") && p.Level == "file":
		var got string
		if _, err := fmt.Sscanf(d, "passphrase %q", &got); err == nil {
			q.OnlyKind, q.OnlyPass = "pass", got
		}
	case strings.Contains(d, "file truncated to"):
		q.OnlyKind, q.OnlyPos = "trunc", v.Step
	case strings.Contains(d, ") deleted"):
		q.OnlyKind, q.OnlyPos = "del", v.Step
	case strings.Contains(d, " -> ") && v.Step > 0:
		i := strings.LastIndex(d, " -> ")
		var c string
		rest := d[i+4:]
		if _, err := fmt.Sscanf(rest, "%q", &c); err == nil && len(c) == 1 {
			q.OnlyKind, q.OnlyPos, q.OnlyByte = "sub", v.Step, c
		}
	}
	return &q
}
