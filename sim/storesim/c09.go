package storesim

import (
	"bytes"
	"encoding/json"
	"fmt"
	"math/big"
	"testing"

	"gitlab.com/aquachain/aquachain/common"
	"gitlab.com/aquachain/aquachain/core/state"
	"gitlab.com/aquachain/aquachain/core/types"
	"verifsim/kernel"
	"verifsim/refmodel"
	"verifsim/simdisk"
)

// ---- C09: snapshots revert exactly, the state root commits to content only ---------------

type StateOp struct {
	Kind string `json:"k"`
	Addr int    `json:"a,omitempty"`
	Slot int    `json:"s,omitempty"`
	Val  uint64 `json:"v,omitempty"`
	Code string `json:"code,omitempty"`
	Snap int    `json:"snap,omitempty"` // revert: index into the live snapshot stack
}

type StatePlan struct {
	DeleteEmpty bool      `json:"delete_empty"` // the finalise flag of this history (EIP-158 on/off)
	SwitchAt    int       `json:"switch_at"`    // op index at which the flag flips from off to on (a fork activating; -1 = never)
	Ops         []StateOp `json:"ops"`
	// Permute re-runs the content-equivalent straight-line history and compares roots
	Permute uint64 `json:"permute_seed"`
}

func DecodeStatePlan(raw json.RawMessage) (any, error) {
	p := &StatePlan{SwitchAt: -1}
	err := json.Unmarshal(raw, p)
	return p, err
}
func HashStatePlan(p any) uint64 { b, _ := json.Marshal(p); return kernel.HashBytes(b) }

const nAddrs, nSlots = 6, 6

func addrOf(i int) common.Address {
	return common.BytesToAddress(refmodel.Keccak([]byte{0xA0, byte(i % nAddrs)})[12:])
}
func slotOf(i int) common.Hash {
	return common.BytesToHash(refmodel.Keccak([]byte{0x50, byte(i % nSlots)}))
}

func GenStatePlan(rng *kernel.RNG, env *kernel.Env, k int) any {
	p := &StatePlan{DeleteEmpty: rng.Bool(0.5), Permute: rng.Uint64(), SwitchAt: -1}
	n := rng.Range(5, 60)
	if !p.DeleteEmpty && rng.Bool(0.4) {
		p.SwitchAt = rng.Intn(n)
	}
	depth := 0
	codes := []string{"", "00", "6001600055", "ff", "60006000fd00112233445566778899aabbccddeeff00112233445566778899aabbccddeeff"}
	for i := 0; i < n; i++ {
		op := StateOp{Addr: rng.Intn(nAddrs), Slot: rng.Intn(nSlots)}
		switch c := rng.Intn(100); {
		case c < 10:
			op.Kind, op.Val = "addbal", uint64(rng.Intn(4))*uint64(rng.Range(0, 1000))
		case c < 16:
			op.Kind, op.Val = "subbal", uint64(rng.Intn(3))
		case c < 22:
			op.Kind, op.Val = "setbal", uint64(rng.Intn(3))*uint64(rng.Range(0, 5))
		case c < 29:
			op.Kind, op.Val = "setnonce", uint64(rng.Intn(4))
		case c < 35:
			op.Kind, op.Code = "setcode", codes[rng.Intn(len(codes))]
		case c < 50:
			op.Kind, op.Val = "setstate", uint64(rng.Intn(3))*uint64(rng.Range(0, 1<<40))
		case c < 55:
			op.Kind = "suicide"
		case c < 59:
			op.Kind = "create"
		case c < 62:
			op.Kind = "touch"
		case c < 65:
			op.Kind = "log"
		case c < 68:
			op.Kind, op.Val = "refund", uint64(rng.Intn(5000))
		case c < 78:
			op.Kind = "snapshot"
			depth++
		case c < 86:
			if depth == 0 {
				op.Kind = "snapshot"
				depth++
			} else {
				op.Kind, op.Snap = "revert", rng.Intn(depth)
				depth = op.Snap
			}
		case c < 90:
			op.Kind = "finalise"
			depth = 0
		case c < 92:
			op.Kind = "root"
			depth = 0
		case c < 95:
			op.Kind = "commit"
			depth = 0
		case c < 97:
			op.Kind = "flush-reopen"
			depth = 0
		case c < 98:
			op.Kind = "crash"
			depth = 0
		default:
			op.Kind = "copy"
		}
		p.Ops = append(p.Ops, op)
	}
	return p
}

// ---- the reference model: plain maps ------------------------------------------------------

type mAccount struct {
	Nonce    uint64
	Balance  *big.Int
	Code     []byte
	Storage  map[int]uint64
	Suicided bool
	Dirty    int // modified since the last commit: 0 no, 1 yes, 2 only inside reverted snapshots (the implementation may or may not remember)
}

type mState struct {
	Acc    map[int]*mAccount
	Refund uint64
	Logs   int
}

func (m *mState) clone() *mState {
	c := &mState{Acc: map[int]*mAccount{}, Refund: m.Refund, Logs: m.Logs}
	for i, a := range m.Acc {
		na := &mAccount{Nonce: a.Nonce, Balance: new(big.Int).Set(a.Balance), Code: append([]byte{}, a.Code...), Storage: map[int]uint64{}, Suicided: a.Suicided, Dirty: a.Dirty}
		for s, v := range a.Storage {
			na.Storage[s] = v
		}
		c.Acc[i] = na
	}
	return c
}

// get returns the account for modification (creating it if absent): it is dirty from now on.
func (m *mState) get(i int) *mAccount {
	a := m.Acc[i]
	if a == nil {
		a = &mAccount{Balance: new(big.Int), Storage: map[int]uint64{}}
		m.Acc[i] = a
	}
	a.Dirty = 1
	return a
}

// addBalance: a zero amount creates the account if absent, touches (marks as
// modified) an existing empty one, and leaves an existing non-empty one alone.
func (m *mState) addBalance(i int, v uint64) {
	if v == 0 {
		if a := m.Acc[i]; a != nil && !a.empty() {
			return
		}
		m.get(i)
		return
	}
	a := m.get(i)
	a.Balance.Add(a.Balance, new(big.Int).SetUint64(v))
}

func (a *mAccount) empty() bool { return a.Nonce == 0 && a.Balance.Sign() == 0 && len(a.Code) == 0 }

// finalise applies the end-of-transaction rule: self-destructed accounts go;
// with empty-account deletion on, empty accounts that were modified (touched)
// since the last commit go, untouched ones stay. exists reports what the
// implementation did for the accounts whose touch was reverted (ambiguous).
func (m *mState) finalise(deleteEmpty bool, exists func(i int) bool) {
	for i, a := range m.Acc {
		switch {
		case a.Suicided:
			delete(m.Acc, i)
		case deleteEmpty && a.empty() && a.Dirty == 1:
			delete(m.Acc, i)
		case deleteEmpty && a.empty() && a.Dirty == 2:
			if exists == nil || !exists(i) {
				delete(m.Acc, i)
			}
		}
	}
	m.Refund = 0
}

func (m *mState) committed() {
	for _, a := range m.Acc {
		a.Dirty = 0
	}
}

// refRoot computes the state root the specification defines for the content.
func (m *mState) refRoot() common.Hash {
	content := map[string][]byte{}
	for i, a := range m.Acc {
		st := map[string][]byte{}
		for s, v := range a.Storage {
			if v == 0 {
				continue
			}
			slot := slotOf(s)
			st[string(refmodel.Keccak(slot[:]))] = refmodel.RlpBytes(new(big.Int).SetUint64(v).Bytes())
		}
		sroot := refmodel.Root(st)
		ch := refmodel.Keccak(a.Code)
		enc := refmodel.RlpList(refmodel.RlpBytes(new(big.Int).SetUint64(a.Nonce).Bytes()), refmodel.RlpBytes(a.Balance.Bytes()), refmodel.RlpBytes(sroot), refmodel.RlpBytes(ch))
		addr := addrOf(i)
		content[string(refmodel.Keccak(addr[:]))] = enc
	}
	return common.BytesToHash(refmodel.Root(content))
}

type stateRun struct {
	p     *StatePlan
	col   *kernel.Collector
	disk  *simdisk.Disk
	sdb   state.Database
	st    *state.StateDB
	m     *mState
	snaps []int     // StateDB revision ids
	msnap []*mState // model copies
	vs    []kernel.Violation
	step  int
	// last flushed
	flushedRoot common.Hash
	flushedM    *mState
	copySt      *state.StateDB
	copyM       *mState
}

// flag is the finalise flag in force at the current step.
func (r *stateRun) flag() bool {
	return r.p.DeleteEmpty || (r.p.SwitchAt >= 0 && r.step >= r.p.SwitchAt)
}

func (r *stateRun) existsFn(st *state.StateDB) func(int) bool {
	return func(i int) bool { return st.Exist(addrOf(i)) }
}

func (r *stateRun) add(class, format string, a ...any) {
	r.vs = append(r.vs, kernel.Violation{Class: class, Step: r.step, Detail: fmt.Sprintf(format, a...)})
}

// compare every getter with the model.
func (r *stateRun) compare(st *state.StateDB, m *mState, class string) bool {
	for i := 0; i < nAddrs; i++ {
		addr := addrOf(i)
		a := m.Acc[i]
		exist := a != nil
		if st.Exist(addr) != exist {
			r.add(class, "Exist(%d) = %v, model %v", i, st.Exist(addr), exist)
			return false
		}
		if a == nil {
			a = &mAccount{Balance: new(big.Int), Storage: map[int]uint64{}}
		}
		if st.Empty(addr) != a.empty() {
			r.add(class, "Empty(%d) = %v, model %v", i, st.Empty(addr), a.empty())
			return false
		}
		if st.GetBalance(addr).Cmp(a.Balance) != 0 {
			r.add(class, "GetBalance(%d) = %v, model %v", i, st.GetBalance(addr), a.Balance)
			return false
		}
		if st.GetNonce(addr) != a.Nonce {
			r.add(class, "GetNonce(%d) = %d, model %d", i, st.GetNonce(addr), a.Nonce)
			return false
		}
		if !bytes.Equal(st.GetCode(addr), a.Code) || st.GetCodeSize(addr) != len(a.Code) {
			r.add(class, "GetCode(%d) = %x (size %d), model %x", i, st.GetCode(addr), st.GetCodeSize(addr), a.Code)
			return false
		}
		wantHash := common.Hash{}
		if exist {
			wantHash = common.BytesToHash(refmodel.Keccak(a.Code))
		}
		if st.GetCodeHash(addr) != wantHash {
			r.add(class, "GetCodeHash(%d) = %x, model %x", i, st.GetCodeHash(addr), wantHash)
			return false
		}
		if st.HasSuicided(addr) != a.Suicided {
			r.add(class, "HasSuicided(%d) = %v, model %v", i, st.HasSuicided(addr), a.Suicided)
			return false
		}
		for s := 0; s < nSlots; s++ {
			got := st.GetState(addr, slotOf(s))
			want := common.BigToHash(new(big.Int).SetUint64(a.Storage[s]))
			if got != want {
				r.add(class, "GetState(%d, slot %d) = %x, model %x", i, s, got, want)
				return false
			}
		}
	}
	if st.GetRefund() != m.Refund {
		r.add(class, "GetRefund = %d, model %d", st.GetRefund(), m.Refund)
		return false
	}
	if len(st.Logs()) != m.Logs {
		r.add(class, "%d logs, model %d", len(st.Logs()), m.Logs)
		return false
	}
	return true
}

func ExecState(t *testing.T, pa any, col *kernel.Collector) []kernel.Violation {
	p := pa.(*StatePlan)
	r := &stateRun{p: p, col: col, m: &mState{Acc: map[int]*mAccount{}}}
	defer func() {
		if x := recover(); x != nil {
			r.add("state-panic", "panic in state code at step %d: %v", r.step, x)
		}
	}()
	r.disk = simdisk.New()
	r.sdb = state.NewDatabase(r.disk)
	var err error
	r.st, err = state.New(common.Hash{}, r.sdb)
	if err != nil {
		r.add("open-empty-failed", "%v", err)
		return r.vs
	}
	r.flushedRoot, r.flushedM = common.BytesToHash(refmodel.EmptyRoot), r.m.clone()
	for i, op := range p.Ops {
		r.step = i
		col.Tick()
		r.apply(op)
		if len(r.vs) > 0 {
			return r.vs
		}
		if !r.compare(r.st, r.m, "getter-differs-from-model/after-"+op.Kind) {
			return r.vs
		}
		col.Inc("steps_compared")
	}
	// final: root equals the reference root of the content, and equals the root of
	// a different history that reaches the same content
	r.step = len(p.Ops)
	root := r.st.IntermediateRoot(r.flag())
	r.m.finalise(r.flag(), r.existsFn(r.st))
	if want := r.m.refRoot(); root != want {
		r.add("root-differs-from-reference", "final IntermediateRoot = %x, reference root of the content = %x", root, want)
		return r.vs
	}
	col.Inc("roots_compared")
	r.otherHistory(root)
	kernel.SetNonTrivial()
	return r.vs
}

func (r *stateRun) apply(op StateOp) {
	addr := addrOf(op.Addr)
	m := r.m
	switch op.Kind {
	case "addbal":
		r.st.AddBalance(addr, new(big.Int).SetUint64(op.Val))
		m.addBalance(op.Addr, op.Val)
	case "subbal":
		v := op.Val
		if a := m.Acc[op.Addr]; a == nil || a.Balance.Cmp(new(big.Int).SetUint64(v)) < 0 {
			v = 0
			if a != nil {
				v = a.Balance.Uint64()
			}
		}
		r.st.SubBalance(addr, new(big.Int).SetUint64(v))
		if v == 0 {
			// a zero amount creates the account if absent and otherwise changes nothing
			// (an existing account is not even marked as modified)
			if m.Acc[op.Addr] == nil {
				m.get(op.Addr)
			}
		} else {
			a := m.get(op.Addr)
			a.Balance.Sub(a.Balance, new(big.Int).SetUint64(v))
		}
	case "setbal":
		r.st.SetBalance(addr, new(big.Int).SetUint64(op.Val))
		m.get(op.Addr).Balance = new(big.Int).SetUint64(op.Val)
	case "setnonce":
		r.st.SetNonce(addr, op.Val)
		m.get(op.Addr).Nonce = op.Val
	case "setcode":
		code := common.FromHex(op.Code)
		r.st.SetCode(addr, code)
		m.get(op.Addr).Code = append([]byte{}, code...)
	case "setstate":
		r.st.SetState(addr, slotOf(op.Slot), common.BigToHash(new(big.Int).SetUint64(op.Val)))
		a := m.get(op.Addr)
		if op.Val == 0 {
			delete(a.Storage, op.Slot%nSlots)
		} else {
			a.Storage[op.Slot%nSlots] = op.Val
		}
		r.col.Inc("op_setstate")
	case "suicide":
		ok := r.st.Suicide(addr)
		a := m.Acc[op.Addr]
		if ok != (a != nil) {
			r.add("suicide-result-wrong", "Suicide(%d) = %v, account exists in model: %v", op.Addr, ok, a != nil)
			return
		}
		if a != nil {
			a.Suicided = true
			a.Balance = new(big.Int)
			a.Dirty = 1
		}
		r.col.Inc("op_suicide")
	case "create":
		r.st.CreateAccount(addr)
		bal := new(big.Int)
		if a := m.Acc[op.Addr]; a != nil {
			bal.Set(a.Balance)
		}
		m.Acc[op.Addr] = &mAccount{Balance: bal, Storage: map[int]uint64{}, Dirty: 1}
	case "touch":
		r.st.AddBalance(addr, new(big.Int))
		m.addBalance(op.Addr, 0)
	case "log":
		r.st.AddLog(&types.Log{Address: addr, Topics: []common.Hash{slotOf(op.Slot)}, Data: []byte{byte(op.Val)}})
		m.Logs++
	case "refund":
		r.st.AddRefund(op.Val)
		m.Refund += op.Val
	case "snapshot":
		r.snaps = append(r.snaps, r.st.Snapshot())
		r.msnap = append(r.msnap, m.clone())
		r.col.Inc("op_snapshot")
		if len(r.snaps) > 2 {
			r.col.Inc("probe_nested_snapshots_3plus")
		}
	case "revert":
		if op.Snap < 0 || op.Snap >= len(r.snaps) {
			return
		}
		r.st.RevertToSnapshot(r.snaps[op.Snap])
		restored := r.msnap[op.Snap]
		for i, a := range restored.Acc {
			if cur := m.Acc[i]; cur != nil && a.Dirty == 0 && cur.Dirty != 0 {
				a.Dirty = 2 // modified only inside the reverted region
			}
		}
		r.m = restored
		r.snaps, r.msnap = r.snaps[:op.Snap], r.msnap[:op.Snap]
		r.col.Inc("op_revert")
	case "finalise":
		r.st.Finalise(r.flag())
		m.finalise(r.flag(), r.existsFn(r.st))
		r.snaps, r.msnap = nil, nil
		r.col.Inc("op_finalise")
	case "root":
		got := r.st.IntermediateRoot(r.flag())
		m.finalise(r.flag(), r.existsFn(r.st))
		r.snaps, r.msnap = nil, nil
		if want := m.refRoot(); got != want {
			r.add("root-differs-from-reference", "IntermediateRoot = %x, reference root of the content = %x", got, want)
			return
		}
		r.col.Inc("roots_compared")
	case "commit", "flush-reopen", "crash":
		r.snaps, r.msnap = nil, nil
		root, err := r.st.Commit(r.flag())
		if err != nil {
			r.add("commit-error", "%v", err)
			return
		}
		m.finalise(r.flag(), r.existsFn(r.st))
		m.committed()
		if want := m.refRoot(); root != want {
			r.add("root-differs-from-reference", "Commit = %x, reference root of the content = %x", root, want)
			return
		}
		r.col.Inc("roots_compared")
		switch op.Kind {
		case "flush-reopen":
			if err := r.sdb.TrieDB().Commit(root, false); err != nil {
				r.add("flush-error", "%v", err)
				return
			}
			r.flushedRoot, r.flushedM = root, m.clone()
			r.flushedM.Refund, r.flushedM.Logs = 0, 0
			// cold caches: a fresh state database over the same disk
			r.sdb = state.NewDatabase(r.disk)
			st, err := state.New(root, r.sdb)
			if err != nil {
				r.add("reopen-committed-root-failed", "state.New(%x) on a fresh database over the disk: %v", root, err)
				return
			}
			r.st = st
			m.Refund = 0
			m.Logs = 0
			r.col.Inc("op_flush_and_reopen_cold")
			// blind writes: slots that were never read through this fresh state are
			// overwritten under a snapshot, and the snapshot is reverted
			snap := r.st.Snapshot()
			for i := 0; i < nAddrs; i++ {
				a := m.Acc[i]
				if a == nil || len(a.Storage) == 0 {
					continue
				}
				for sl := 0; sl < nSlots; sl++ {
					if _, has := a.Storage[sl]; has && (sl+op.Slot)%2 == 0 {
						r.st.SetState(addrOf(i), slotOf(sl), common.BigToHash(big.NewInt(int64(990+sl))))
						r.col.Inc("probe_blind_storage_write_reverted_on_a_reopened_state")
					}
				}
				if a.Dirty == 0 {
					a.Dirty = 2 // modified only inside the reverted region
				}
			}
			r.st.RevertToSnapshot(snap)
		case "crash":
			// the process dies before the trie database is flushed: only the disk survives
			onDisk, _ := r.disk.Has(root[:])
			fresh := state.NewDatabase(r.disk)
			if _, err := state.New(root, fresh); err == nil && !onDisk && root != common.BytesToHash(refmodel.EmptyRoot) {
				r.add("unflushed-root-opened-from-disk", "state root %x was never flushed, yet state.New on a fresh database succeeded", root)
				return
			}
			r.sdb = fresh
			st, err := state.New(r.flushedRoot, r.sdb)
			if err != nil {
				r.add("reopen-flushed-root-failed", "state.New(%x) after a crash: %v", r.flushedRoot, err)
				return
			}
			r.st, r.m = st, r.flushedM.clone()
			r.col.Inc("fault_crash_before_flush")
		default:
			// keep working on the same object after Commit; a reopened view through the
			// same database (warm caches) must read identically
			st2, err := state.New(root, r.sdb)
			if err != nil {
				r.add("reopen-committed-root-failed", "state.New(%x) through the same database: %v", root, err)
				return
			}
			m2 := m.clone()
			m2.Refund, m2.Logs = 0, 0
			// a second view of the same root, opened before the first one is read or written
			st3, err := state.New(root, r.sdb)
			if err != nil {
				r.add("reopen-committed-root-failed", "second state.New(%x) through the same database: %v", root, err)
				return
			}
			if !r.compare(st2, m2, "reopened-state-differs") {
				return
			}
			// the first view diverges and hashes; the second one, which has loaded nothing yet,
			// must still read the committed content
			for i := 0; i < nAddrs; i++ {
				st2.AddBalance(addrOf(i), big.NewInt(int64(11+i)))
				if m2.Acc[i] != nil {
					st2.SetState(addrOf(i), slotOf((op.Slot+i)%nSlots), common.BigToHash(big.NewInt(int64(4242+i))))
				}
			}
			st2.IntermediateRoot(r.flag())
			if !r.compare(st3, m2, "second-view-of-a-root-changed-with-the-first") {
				return
			}
			r.col.Inc("op_commit")
		}
	case "copy":
		// A copy takes over code that was set and not committed yet, and is the one that commits:
		// the root it commits must reopen (through the same database) with that code. The code is
		// unique to this step, so no earlier commit can have stored it.
		if op.Slot%2 == 0 {
			uniq := []byte{0x60, byte(r.step), 0x60, byte(r.step >> 8), 0x50, 0x50, 0x5b, byte(op.Addr), byte(op.Slot)}
			r.st.SetCode(addr, uniq)
			m.get(op.Addr).Code = append([]byte{}, uniq...)
			cc, ccm := r.st.Copy(), m.clone()
			croot, err := cc.Commit(r.flag())
			if err != nil {
				r.add("commit-error", "Commit of a copy: %v", err)
				return
			}
			ccm.finalise(r.flag(), r.existsFn(cc))
			ccm.committed()
			if want := ccm.refRoot(); croot != want {
				r.add("copy-root-differs-from-reference/committed-by-the-copy", "Commit of a copy = %x, reference root of its content = %x", croot, want)
				return
			}
			st4, err := state.New(croot, r.sdb)
			if err != nil {
				r.add("reopen-committed-root-failed", "state.New(%x) of a root committed by a copy: %v", croot, err)
				return
			}
			ccm.Refund, ccm.Logs = 0, 0
			if !r.compare(st4, ccm, "state-committed-by-a-copy-differs-on-reopen") {
				return
			}
			r.col.Inc("probe_copy_commits_code_set_before_the_copy")
		}
		cp := r.st.Copy()
		cm := m.clone()
		if !r.compare(cp, cm, "copy-differs-from-original") {
			return
		}
		// the two must be independent: change the original, the copy stays
		r.st.AddBalance(addr, big.NewInt(7))
		m.get(op.Addr).Balance.Add(m.get(op.Addr).Balance, big.NewInt(7))
		if !r.compare(cp, cm, "copy-changed-with-original") {
			return
		}
		// changes made and reverted inside the copy leave it exactly as it was - pending
		// (not yet finalised) changes it inherited from the original included
		snap := cp.Snapshot()
		for i := 0; i < nAddrs; i++ {
			cp.AddBalance(addrOf(i), new(big.Int)) // touches an empty account
			if (op.Slot+i)%3 == 0 {
				cp.CreateAccount(addrOf(i)) // re-creation of an existing account, or a new one
			}
			if (op.Slot+i)%2 == 0 {
				cp.AddBalance(addrOf(i), big.NewInt(11))
				cp.SetState(addrOf(i), slotOf(op.Slot+i), common.BigToHash(big.NewInt(77)))
			}
		}
		cp.RevertToSnapshot(snap)
		if !r.compare(cp, cm, "copy-changed-by-reverted-changes") {
			return
		}
		probe, pm := cp.Copy(), cm.clone()
		probeRoot := probe.IntermediateRoot(r.flag())
		pm.finalise(r.flag(), r.existsFn(probe))
		if want := pm.refRoot(); probeRoot != want {
			r.add("copy-root-differs-from-reference/after-reverted-changes-in-the-copy", "a copy took over pending changes, made further changes and reverted them; IntermediateRoot of (a copy of) it = %x, reference root of its content = %x", probeRoot, want)
			return
		}
		r.col.Inc("probe_reverted_changes_inside_a_copy")
		// ... and the other way round: diverging writes on the copy (storage of every
		// account, balances), hashed there, must not leak into the original
		for i := 0; i < nAddrs; i++ {
			if cm.Acc[i] == nil {
				continue
			}
			sl := (op.Slot + i) % nSlots
			v := uint64(1000 + op.Slot + i)
			cp.SetState(addrOf(i), slotOf(sl), common.BigToHash(new(big.Int).SetUint64(v)))
			cm.get(i).Storage[sl] = v
			cp.AddBalance(addrOf(i), big.NewInt(3))
			cm.get(i).Balance.Add(cm.get(i).Balance, big.NewInt(3))
		}
		cpRoot := cp.IntermediateRoot(r.flag())
		cm.finalise(r.flag(), r.existsFn(cp))
		if want := cm.refRoot(); cpRoot != want {
			r.add("copy-root-differs-from-reference", "IntermediateRoot of the copy = %x, reference root of its content = %x", cpRoot, want)
			return
		}
		if !r.compare(r.st, m, "original-changed-with-copy") {
			return
		}
		r.col.Inc("op_copy")
	}
}

// otherHistory builds the same content by a different, straight-line history
// (permuted order, padded with reverted noise) and compares the roots.
func (r *stateRun) otherHistory(root common.Hash) {
	rng := kernel.NewRNG(r.p.Permute)
	sdb := state.NewDatabase(simdisk.New())
	st, _ := state.New(common.Hash{}, sdb)
	order := rng.Perm(nAddrs)
	for _, i := range order {
		a := r.m.Acc[i]
		if a == nil {
			continue
		}
		addr := addrOf(i)
		// noise that is reverted
		id := st.Snapshot()
		st.AddBalance(addr, big.NewInt(99))
		st.SetState(addr, slotOf(rng.Intn(nSlots)), common.BigToHash(big.NewInt(5)))
		st.SetCode(addr, []byte{1, 2, 3})
		st.RevertToSnapshot(id)
		steps := rng.Perm(4)
		for _, s := range steps {
			switch s {
			case 0:
				st.SetNonce(addr, a.Nonce)
			case 1:
				st.SetBalance(addr, a.Balance)
			case 2:
				if len(a.Code) > 0 {
					st.SetCode(addr, a.Code)
				}
			case 3:
				for _, sl := range rng.Perm(nSlots) {
					if v := a.Storage[sl]; v != 0 {
						st.SetState(addr, slotOf(sl), common.BigToHash(big.NewInt(1))) // overwritten below
						st.SetState(addr, slotOf(sl), common.BigToHash(new(big.Int).SetUint64(v)))
					}
				}
			}
		}
		if a.empty() {
			st.AddBalance(addr, new(big.Int)) // an empty account that exists (only possible without empty-deletion)
		}
		if rng.Bool(0.3) {
			st.IntermediateRoot(false)
		}
	}
	other := st.IntermediateRoot(false)
	r.col.Inc("roots_compared_across_histories")
	if other != root {
		r.add("root-depends-on-history", "two histories reaching the same content of %d accounts have roots %x and %x", len(r.m.Acc), root, other)
	}
}

func ShrinkStatePlan(pa any) []any {
	p := pa.(*StatePlan)
	var out []any
	for size := len(p.Ops) / 2; size >= 1; size /= 2 {
		for at := len(p.Ops) - size; at >= 0; at -= size {
			q := *p
			q.Ops = append(append([]StateOp{}, p.Ops[:at]...), p.Ops[at+size:]...)
			// keep revert indices meaningful: drop reverts that now point beyond the stack
			depth := 0
			ok := true
			for _, op := range q.Ops {
				switch op.Kind {
				case "snapshot":
					depth++
				case "revert":
					if op.Snap >= depth {
						ok = false
					}
					depth = op.Snap
				case "finalise", "root", "commit", "flush-reopen", "crash":
					depth = 0
				}
			}
			if ok {
				out = append(out, &q)
			}
		}
	}
	return out
}
