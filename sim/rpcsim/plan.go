// Package rpcsim decides C18: a complete node (node.Node + the aqua service)
// is started in a child process per opt-in configuration, with all four RPC
// transports, and simulated clients call every method of every registered API
// on every transport.  "A signature was produced" is observed directly at the
// keystore signing entry points (guarded hook), never inferred from names.
package rpcsim

import (
	"encoding/json"
	"fmt"
	"sort"

	"verifsim/kernel"
)

// Transports in the order the node starts them.
var Transports = []string{"inproc", "ipc", "http", "ws"}

// EnvVars: the opt-in variables of rpc/server.go; the first is the global one.
var EnvVars = []string{"UNSAFE_RPC_SIGNING", "UNSAFE_ALLOW_SIGN_INPROC", "UNSAFE_ALLOW_SIGN_IPC", "UNSAFE_RPC_SIGNING_HTTP", "UNSAFE_RPC_SIGNING_WS"}

// flagOf maps a transport to its opt-in variable.
var flagOf = map[string]string{
	"inproc": "UNSAFE_ALLOW_SIGN_INPROC",
	"ipc":    "UNSAFE_ALLOW_SIGN_IPC",
	"http":   "UNSAFE_RPC_SIGNING_HTTP",
	"ws":     "UNSAFE_RPC_SIGNING_WS",
}

// Plan is one simulated deployment and client history.
type Plan struct {
	// Env: value per opt-in variable; a variable that is absent is unset.
	Env map[string]string `json:"env"`
	// Modules: "all" exposes every namespace on HTTP and WS (what an operator
	// who wants personal_* over HTTP configures); "default" leaves the
	// whitelists empty (public APIs only).
	Modules string `json:"modules"`
	// WSExposeAll sets node.Config.WSExposeAll.
	WSExposeAll bool `json:"ws_expose_all,omitempty"`
	// Restart: before the sweep, stop and start the HTTP and WS endpoints
	// through admin_stopRPC/startRPC and admin_stopWS/startWS (over IPC) so
	// that the servers under test are the re-registered ones.
	Restart bool `json:"restart,omitempty"`
	// Order seeds the order of the generic sweep and the boolean arguments.
	Order uint64 `json:"order"`
	// Only, when non-empty, restricts the run to these "transport method"
	// pairs (minimised replays).
	Only []string `json:"only,omitempty"`
}

// truthy is the documented meaning of an opt-in value: set and not a spelling
// of "no".  Values outside these two lists are never generated.
func truthy(v string, set bool) (opted bool, defined bool) {
	if !set {
		return false, true
	}
	switch v {
	case "1", "true", "yes", "on", "TRUE":
		return true, true
	case "0", "false", "no", "off", "":
		return false, true
	}
	return false, false
}

// Permitted: may a signature be produced through transport tr under this plan?
func (p *Plan) Permitted(tr string) bool {
	for _, name := range []string{flagOf[tr], "UNSAFE_RPC_SIGNING"} {
		v, set := p.Env[name]
		if ok, _ := truthy(v, set); ok {
			return true
		}
	}
	return false
}

// OptedIn: was this very transport opted in (the clause "enables signing
// methods on that transport")?
func (p *Plan) OptedIn(tr string) bool {
	v, set := p.Env[flagOf[tr]]
	ok, _ := truthy(v, set)
	return ok
}

var yesSpellings = []string{"1", "true", "1", "yes", "on", "1"}
var noSpellings = []string{"0", "false", "", "no", "off"}

// Gen: run k of worker w covers configuration index k*workers+w of a fixed
// enumeration first (the 32 set/unset combinations, then the 32 again with the
// unset ones spelled as explicit "no" values), and seeded mixtures afterwards.
func Gen(rng *kernel.RNG, env *kernel.Env, k int) any {
	idx := k*env.Workers + env.Worker
	p := &Plan{Env: map[string]string{}, Modules: "all", Order: rng.Uint64()}
	n := len(EnvVars)
	switch {
	case idx < 1<<n:
		for i, name := range EnvVars {
			if idx>>i&1 == 1 {
				p.Env[name] = "1"
			}
		}
	case idx < 2<<n:
		m := idx - 1<<n
		for i, name := range EnvVars {
			if m>>i&1 == 1 {
				p.Env[name] = yesSpellings[rng.Intn(len(yesSpellings))]
			} else {
				p.Env[name] = noSpellings[rng.Intn(len(noSpellings))]
			}
		}
		p.Restart = rng.Intn(2) == 0
	default:
		for _, name := range EnvVars {
			switch rng.Intn(4) {
			case 0:
				p.Env[name] = yesSpellings[rng.Intn(len(yesSpellings))]
			case 1:
				p.Env[name] = noSpellings[rng.Intn(len(noSpellings))]
			}
		}
		// bias: most runs opt in at most one transport
		if rng.Intn(3) > 0 {
			keep := EnvVars[rng.Intn(n)]
			for _, name := range EnvVars {
				if name != keep {
					if ok, _ := truthy(p.Env[name], true); ok {
						delete(p.Env, name)
					}
				}
			}
		}
		if rng.Intn(4) == 0 {
			p.Modules = "default"
		}
		p.WSExposeAll = rng.Intn(3) == 0
		p.Restart = rng.Intn(3) == 0
	}
	return p
}

func DecodePlan(raw json.RawMessage) (any, error) {
	p := &Plan{}
	if err := json.Unmarshal(raw, p); err != nil {
		return nil, err
	}
	if p.Env == nil {
		p.Env = map[string]string{}
	}
	return p, nil
}

func HashPlan(pa any) uint64 {
	p := pa.(*Plan)
	keys := make([]string, 0, len(p.Env))
	for k := range p.Env {
		keys = append(keys, k)
	}
	sort.Strings(keys)
	s := fmt.Sprintf("%s|%v|%v|%d|%v", p.Modules, p.WSExposeAll, p.Restart, p.Order, p.Only)
	for _, k := range keys {
		s += "|" + k + "=" + p.Env[k]
	}
	return kernel.HashString(s)
}

// Shrink: drop the restart, drop environment variables that are not needed,
// normalise spellings.  (Restriction to the offending call is done by Narrow.)
func Shrink(pa any) []any {
	p := pa.(*Plan)
	var out []any
	cp := func() *Plan {
		q := *p
		q.Env = map[string]string{}
		for k, v := range p.Env {
			q.Env[k] = v
		}
		q.Only = append([]string(nil), p.Only...)
		return &q
	}
	if p.Restart {
		q := cp()
		q.Restart = false
		out = append(out, q)
	}
	if p.WSExposeAll {
		q := cp()
		q.WSExposeAll = false
		out = append(out, q)
	}
	keys := make([]string, 0, len(p.Env))
	for k := range p.Env {
		keys = append(keys, k)
	}
	sort.Strings(keys)
	for _, k := range keys {
		q := cp()
		delete(q.Env, k)
		out = append(out, q)
	}
	for _, k := range keys {
		if ok, _ := truthy(p.Env[k], true); ok && p.Env[k] != "1" {
			q := cp()
			q.Env[k] = "1"
			out = append(out, q)
		}
	}
	return out
}
