package rpcsim

import (
	"encoding/json"
	"fmt"
	"os"
	"os/exec"
	"path/filepath"
	"strings"
	"testing"
	"time"

	"verifsim/kernel"
)

// signing methods that the opt-in clause requires to work on an opted-in
// transport: (method, variant) pairs whose preconditions the harness set up.
var mustSign = []struct{ Method, Variant string }{
	{"personal_sign", "unlocked/right"},
	{"personal_sign", "locked/right"},
	{"aqua_sign", "unlocked/right"},
	{"aqua_signTransaction", "unlocked/right"},
	{"personal_signTransaction", "locked/right"},
}

// Exec runs the plan in a child process (the opt-in variables are read once,
// at process start, by package rpc) and evaluates the oracle on its report.
func Exec(t *testing.T, pa any, col *kernel.Collector) []kernel.Violation {
	p := pa.(*Plan)
	res, err := runChild(p)
	if err != nil {
		// two more attempts: a port taken between probing and listening
		for i := 0; i < 2 && err != nil; i++ {
			col.Inc("child_retries")
			res, err = runChild(p)
		}
		if err != nil {
			return []kernel.Violation{{Class: "harness-panic", Detail: "C18 child: " + err.Error()}}
		}
	}
	return Evaluate(p, res, col)
}

func runChild(p *Plan) (*ChildResult, error) {
	dir, err := os.MkdirTemp("", "c18p-")
	if err != nil {
		return nil, err
	}
	defer os.RemoveAll(dir)
	planPath, outPath := filepath.Join(dir, "plan.json"), filepath.Join(dir, "out.json")
	b, _ := json.Marshal(p)
	os.WriteFile(planPath, b, 0o644)
	cmd := exec.Command(os.Args[0], "-test.run", "^TestC18Child$", "-test.cpu", "2")
	var env []string
	for _, kv := range os.Environ() {
		name := kv
		if i := strings.IndexByte(kv, '='); i >= 0 {
			name = kv[:i]
		}
		if strings.HasPrefix(name, "UNSAFE_") || strings.HasPrefix(name, "VERIF_") || name == "NO_SIGN" || name == "NOSIGN" || name == "NO_KEYS" {
			continue
		}
		env = append(env, kv)
	}
	for k, v := range p.Env {
		env = append(env, k+"="+v)
	}
	env = append(env, "VERIF_C18_PLAN="+planPath, "VERIF_C18_OUT="+outPath, "AQUA_ALLOW_RPC=true", "TMPDIR="+dir, "HOME="+dir, "AQUA_DATADIR="+filepath.Join(dir, "aquadata"))
	cmd.Env = env
	cmd.Dir = dir
	var out strings.Builder
	cmd.Stdout, cmd.Stderr = &out, &out
	if err := cmd.Start(); err != nil {
		return nil, err
	}
	done := make(chan error, 1)
	go func() { done <- cmd.Wait() }()
	select {
	case err = <-done:
	case <-time.After(240 * time.Second):
		cmd.Process.Kill()
		<-done
		return nil, fmt.Errorf("child timed out; output tail: %s", tail(out.String(), 600))
	}
	rb, rerr := os.ReadFile(outPath)
	if rerr != nil {
		return nil, fmt.Errorf("child left no report (%v, exit %v); output tail: %s", rerr, err, tail(out.String(), 1500))
	}
	res := &ChildResult{}
	if jerr := json.Unmarshal(rb, res); jerr != nil {
		return nil, jerr
	}
	if res.Infra != "" {
		return nil, fmt.Errorf("%s", res.Infra)
	}
	return res, nil
}

func tail(s string, n int) string {
	if len(s) > n {
		return s[len(s)-n:]
	}
	return s
}

// Evaluate is the oracle.
func Evaluate(p *Plan, res *ChildResult, col *kernel.Collector) []kernel.Violation {
	var vs []kernel.Violation
	seen := map[string]bool{}
	add := func(class string, step int, f string, a ...any) {
		if seen[class] {
			return
		}
		seen[class] = true
		vs = append(vs, kernel.Violation{Class: class, Step: step, Detail: fmt.Sprintf(f, a...)})
	}
	col.Add("client_calls", int64(len(res.Obs)))
	col.Add("methods_enumerated", int64(res.Methods))
	col.Inc("deployments")
	col.Sample(map[string]any{"env": p.Env, "modules": p.Modules, "restart": p.Restart, "calls": len(res.Obs), "namespaces": res.Namespaces, "not_called": res.Skipped})
	if len(res.Restarted) > 0 {
		col.Inc("probe_endpoints_restarted_through_admin_api")
	}
	anyOpt := false
	for _, tr := range Transports {
		if p.Permitted(tr) {
			anyOpt = true
			col.Inc("probe_transport_opted_in_" + tr)
		} else {
			col.Inc("probe_transport_locked_down_" + tr)
		}
	}
	if !anyOpt {
		col.Inc("probe_default_or_all_negative_environment")
	}
	signedOK := map[string]bool{}
	for i, o := range res.Obs {
		col.Inc("calls_" + o.Transport)
		if o.TimedOut {
			col.Inc("calls_timed_out")
		}
		if strings.Contains(o.Err, "does not exist") || strings.Contains(o.Err, "not available") {
			col.Inc("calls_method_not_offered")
		}
		if o.Signed == 0 {
			continue
		}
		col.Inc("signatures_observed")
		if p.Permitted(o.Transport) {
			col.Inc("signatures_on_opted_in_transport")
			signedOK[o.Transport+" "+o.Method+" "+o.Variant] = true
			continue
		}
		add("signature-without-opt-in/"+o.Method, i,
			"%s over %s (%s, args %s) made the keystore sign (%s) although neither %s nor UNSAFE_RPC_SIGNING is opted in (env %v)",
			o.Method, o.Transport, o.Variant, o.Args, strings.Join(o.SignFns, ","), flagOf[o.Transport], p.Env)
	}
	if len(res.Background) > 0 {
		add("signature-outside-any-call", len(res.Obs), "the keystore signed (%s) while no client call was in flight", strings.Join(res.Background, ","))
	}
	// "opting in for one transport enables signing methods on that transport"
	if len(p.Only) == 0 {
		for _, tr := range Transports {
			if !p.OptedIn(tr) {
				continue
			}
			if tr == "http" || tr == "ws" {
				if p.Modules != "all" && !(tr == "ws" && p.WSExposeAll) {
					// personal_* is not exposed by the whitelist; only aqua_* applies
					for _, ms := range mustSign {
						if strings.HasPrefix(ms.Method, "aqua_") && !signedOK[tr+" "+ms.Method+" "+ms.Variant] {
							add("opt-in-does-not-enable-signing/"+ms.Method, 0, "%s=%q but %s (%s) over %s produced no signature", flagOf[tr], p.Env[flagOf[tr]], ms.Method, ms.Variant, tr)
						}
					}
					continue
				}
			}
			for _, ms := range mustSign {
				if !signedOK[tr+" "+ms.Method+" "+ms.Variant] {
					add("opt-in-does-not-enable-signing/"+ms.Method, 0, "%s=%q but %s (%s) over %s produced no signature", flagOf[tr], p.Env[flagOf[tr]], ms.Method, ms.Variant, tr)
				}
			}
			col.Inc("opt_in_enables_checked")
		}
	}
	kernel.SetNonTrivial()
	return vs
}

// Narrow restricts a plan to the call a violation names.
func Narrow(pa any, v kernel.Violation) any {
	p := pa.(*Plan)
	if !strings.HasPrefix(v.Class, "signature-without-opt-in/") {
		return p
	}
	m := strings.TrimPrefix(v.Class, "signature-without-opt-in/")
	q := *p
	q.Only = nil
	for _, tr := range Transports {
		if !p.Permitted(tr) {
			q.Only = append(q.Only, tr+" "+m)
		}
	}
	return &q
}
