package rpcsim

import (
	"context"
	"encoding/json"
	"fmt"
	"math/big"
	"net"
	"os"
	"path/filepath"
	"reflect"
	"sort"
	"strings"
	"sync"
	"time"
	"unicode"

	"github.com/btcsuite/btcd/btcec/v2"
	"gitlab.com/aquachain/aquachain/aqua"
	"gitlab.com/aquachain/aquachain/aqua/accounts/keystore"
	"gitlab.com/aquachain/aquachain/common"
	"gitlab.com/aquachain/aquachain/common/hexutil"
	"gitlab.com/aquachain/aquachain/common/verifhook"
	"gitlab.com/aquachain/aquachain/consensus/aquahash"
	"gitlab.com/aquachain/aquachain/core"
	"gitlab.com/aquachain/aquachain/core/types"
	"gitlab.com/aquachain/aquachain/crypto"
	"gitlab.com/aquachain/aquachain/node"
	"gitlab.com/aquachain/aquachain/p2p"
	"gitlab.com/aquachain/aquachain/p2p/netutil"
	"gitlab.com/aquachain/aquachain/params"
	rpcclient "gitlab.com/aquachain/aquachain/rpc/rpcclient"
	"verifsim/kernel"
)

// Obs is one client call and what it made the keystore do.
type Obs struct {
	Phase     string   `json:"phase"` // probe | sweep
	Transport string   `json:"transport"`
	Method    string   `json:"method"`
	Variant   string   `json:"variant"` // account role / passphrase role
	Args      string   `json:"args"`
	Signed    int      `json:"signed"`
	SignFns   []string `json:"sign_fns,omitempty"`
	Err       string   `json:"err,omitempty"`
	HasResult bool     `json:"has_result,omitempty"`
	TimedOut  bool     `json:"timed_out,omitempty"`
}

// ChildResult is what the child process reports.
type ChildResult struct {
	Infra      string         `json:"infra,omitempty"` // non-empty: the deployment could not be set up
	Methods    int            `json:"methods"`         // distinct namespace_method names enumerated from the API list
	Namespaces []string       `json:"namespaces"`
	Skipped    []string       `json:"skipped"`
	Up         map[string]int `json:"up"` // transport -> calls made
	Background []string       `json:"background,omitempty"`
	Obs        []Obs          `json:"obs"`
	Restarted  []string       `json:"restarted,omitempty"`
}

const (
	passRight = "correct horse battery staple"
	passWrong = "correct horse battery stapler"
)

// signing observer: installed as verifhook.Yield in the child.
var (
	sigMu    sync.Mutex
	sigLabel string // "" = no client call in flight
	sigFns   []string
	sigBack  []string
)

func observe(site string, arg interface{}) {
	if site != "keystore.signing" {
		return
	}
	fn, _ := arg.(string)
	sigMu.Lock()
	if sigLabel == "" {
		sigBack = append(sigBack, fn)
	} else {
		sigFns = append(sigFns, fn)
	}
	sigMu.Unlock()
}

func freePort() int {
	l, err := net.Listen("tcp4", "127.0.0.1:0")
	if err != nil {
		return 0
	}
	defer l.Close()
	return l.Addr().(*net.TCPAddr).Port
}

type deployment struct {
	dir     string
	stack   *node.Node
	cancel  context.CancelFunc
	clients map[string]*rpcclient.Client
	apis    []apiMethod
	// accounts
	addrU, addrL common.Address // unlocked / locked keystore accounts
	other        common.Address
	poolTx       map[common.Address]*types.Transaction
	chainID      *big.Int
	httpPort     int
	wsPort       int
	allNS        []string
}

type apiMethod struct {
	Namespace string
	Name      string // namespace_method
	GoName    string
	Params    []reflect.Type
}

func lowerFirst(s string) string {
	r := []rune(s)
	r[0] = unicode.ToLower(r[0])
	return string(r)
}

var ctxType = reflect.TypeOf((*context.Context)(nil)).Elem()

// RunChild is the body of the child process.
func RunChild(planPath, outPath string) {
	res := &ChildResult{Up: map[string]int{}}
	defer func() {
		if r := recover(); r != nil {
			res.Infra = fmt.Sprintf("child panic: %v", r)
		}
		b, _ := json.Marshal(res)
		os.WriteFile(outPath, b, 0o644)
	}()
	raw, err := os.ReadFile(planPath)
	if err != nil {
		res.Infra = err.Error()
		return
	}
	pa, err := DecodePlan(raw)
	if err != nil {
		res.Infra = err.Error()
		return
	}
	p := pa.(*Plan)
	node.SetupLoggingForSim()
	verifhook.Yield = observe

	d, err := deploy(p)
	if err != nil {
		res.Infra = "deploy: " + err.Error()
		return
	}
	defer d.close()
	d.run(p, res)
}

// knownNS seeds the module whitelists; deploy adds whatever else the running
// node turns out to register and starts over.
var knownNS = []string{"admin", "aqua", "btc", "debug", "eth", "miner", "net", "personal", "rpc", "testing", "txpool", "web3"}

func deploy(p *Plan) (*deployment, error) {
	for try := 0; ; try++ {
		d, missing, err := deployOnce(p)
		if err != nil || len(missing) == 0 {
			return d, err
		}
		d.close()
		if try > 2 {
			return nil, fmt.Errorf("module list does not converge: %v", missing)
		}
		knownNS = append(knownNS, missing...)
		chainSeq++
	}
}

var chainSeq uint64

func deployOnce(p *Plan) (*deployment, []string, error) {
	d, err := deployNode(p)
	if err != nil {
		return nil, nil, err
	}
	var missing []string
	if p.Modules == "all" {
		for _, ns := range d.allNS {
			found := false
			for _, m := range knownNS {
				found = found || m == ns
			}
			if !found {
				missing = append(missing, ns)
			}
		}
	}
	if len(missing) > 0 {
		return d, missing, nil
	}
	if err := d.dial(context.Background()); err != nil {
		d.close()
		return nil, nil, err
	}
	return d, nil, nil
}

func deployNode(p *Plan) (*deployment, error) {
	dir, err := os.MkdirTemp("", "c18-")
	if err != nil {
		return nil, err
	}
	if err := os.Chdir(dir); err != nil {
		return nil, err
	}
	d := &deployment{dir: dir, clients: map[string]*rpcclient.Client{}, poolTx: map[common.Address]*types.Transaction{}}
	ctx, cancel := context.WithCancel(context.Background())
	d.cancel = cancel

	chainId := uint64(7718) + chainSeq
	chaincfg := &params.ChainConfig{}
	*chaincfg = *params.TestChainConfig
	chaincfg.ChainId = new(big.Int).SetUint64(chainId)
	params.AddChainConfig(fmt.Sprintf("c18sim%d", chainSeq), chaincfg)
	d.chainID = chaincfg.ChainId

	// keys known to the harness (so that it can put transactions of the
	// keystore accounts into the pool without asking the keystore to sign)
	keyU := keyFromHex("b71c71a67e1177ad4e901695e1b4b9ee17ae16c6668d313eac2f96dbcda3f291")
	keyL := keyFromHex("8a1f9a8f95be41cd7ccb6168179afb4504aefe388d1e14474d32c45c72ce7b7a")
	d.addrU, d.addrL = crypto.PubkeyToAddress(keyU.PubKey()), crypto.PubkeyToAddress(keyL.PubKey())
	d.other = common.HexToAddress("0x00000000000000000000000000000000000c18c1")

	var modules []string
	d.httpPort, d.wsPort = freePort(), freePort()
	if d.httpPort == 0 || d.wsPort == 0 {
		return nil, fmt.Errorf("no free port")
	}
	cfg := &node.Config{
		Context:           ctx,
		CloseMain:         func(err error) {},
		DataDir:           dir,
		UseLightweightKDF: true,
		Name:              "c18sim",
		P2P:               &p2p.Config{ChainId: chainId, NoDiscovery: true, ListenAddr: "127.0.0.1:0", MaxPeers: 0},
		RPCAllowIP:        []string{"127.0.0.1/32"},
		IPCPath:           "aqua.ipc",
		HTTPHost:          "127.0.0.1",
		HTTPPort:          d.httpPort,
		HTTPVirtualHosts:  []string{"*"},
		WSHost:            "127.0.0.1",
		WSPort:            d.wsPort,
		WSOrigins:         []string{"*"},
		WSExposeAll:       p.WSExposeAll,
		NoCountdown:       true,
	}
	huge, _ := new(big.Int).SetString("1000000000000000000000000", 10)
	genesis := &core.Genesis{
		Config:     chaincfg,
		GasLimit:   6283185,
		Difficulty: big.NewInt(1),
		Alloc: map[common.Address]core.GenesisAccount{
			d.addrU: {Balance: huge},
			d.addrL: {Balance: huge},
		},
	}
	aquaConf := aqua.NewDefaultConfig()
	aquaConf.Genesis = genesis
	aquaConf.Aquabase = d.addrU
	aquaConf.Aquahash = &aquahash.Config{PowMode: aquahash.ModeTest}
	aquaConf.ChainId = chainId
	aquaConf.DatabaseCache, aquaConf.TrieCache = 16, 16
	aquaConf.TxPool.Journal = ""
	nodename := func() string {
		def := node.NewDefaultConfig()
		def.Name = "c18sim"
		return def.NodeName()
	}()
	// the whitelists must name namespaces before Start; the complete list is
	// only known afterwards, so "all" uses every namespace this code base
	// registers (checked against the running node below).
	if p.Modules == "all" {
		modules = append([]string(nil), knownNS...)
	}
	cfg.HTTPModules, cfg.WSModules = modules, modules
	stack, err := node.New(cfg)
	if err != nil {
		return nil, err
	}
	d.stack = stack
	if err := stack.Register(func(nodectx *node.ServiceContext) (node.Service, error) {
		return aqua.New(ctx, nodectx, aquaConf, nodename)
	}); err != nil {
		return nil, err
	}
	if err := stack.Start(ctx); err != nil {
		return nil, fmt.Errorf("start: %v", err)
	}
	// keystore accounts
	am := stack.AccountManager()
	if am == nil {
		return nil, fmt.Errorf("no account manager")
	}
	kss := am.Backends(keystore.KeyStoreType)
	if len(kss) == 0 {
		return nil, fmt.Errorf("no keystore backend")
	}
	ks := kss[0].(*keystore.KeyStore)
	accU, err := ks.ImportECDSA(keyU, passRight)
	if err != nil {
		return nil, err
	}
	if _, err := ks.ImportECDSA(keyL, passRight); err != nil {
		return nil, err
	}
	if err := ks.Unlock(accU, passRight); err != nil {
		return nil, err
	}
	// one pending transaction per keystore account, signed by the harness
	var aq *aqua.Aquachain
	if err := stack.Service(&aq); err != nil {
		return nil, err
	}
	signer := types.NewEIP155Signer(chaincfg.ChainId)
	for _, k := range []struct {
		a   common.Address
		key *btcec.PrivateKey
	}{{d.addrU, keyU}, {d.addrL, keyL}} {
		tx := types.NewTransaction(0, d.other, big.NewInt(1000), 21000, big.NewInt(2_000_000_000), nil)
		stx, err := types.SignTx(tx, signer, k.key)
		if err != nil {
			return nil, err
		}
		if err := aq.TxPool().AddLocal(stx); err != nil {
			return nil, fmt.Errorf("pool: %v", err)
		}
		d.poolTx[k.a] = stx
	}
	// API list and clients
	seenNS := map[string]bool{}
	for _, api := range stack.APIsForSim() {
		seenNS[api.Namespace] = true
		t := reflect.TypeOf(api.Service)
		for i := 0; i < t.NumMethod(); i++ {
			m := t.Method(i)
			if m.PkgPath != "" {
				continue
			}
			am := apiMethod{Namespace: api.Namespace, GoName: m.Name, Name: api.Namespace + "_" + lowerFirst(m.Name)}
			for j := 1; j < m.Type.NumIn(); j++ {
				if j == 1 && m.Type.In(j) == ctxType {
					continue
				}
				am.Params = append(am.Params, m.Type.In(j))
			}
			d.apis = append(d.apis, am)
		}
	}
	for ns := range seenNS {
		d.allNS = append(d.allNS, ns)
	}
	sort.Strings(d.allNS)
	sort.Slice(d.apis, func(i, j int) bool { return d.apis[i].Name < d.apis[j].Name })
	return d, nil
}

func (d *deployment) dial(ctx context.Context) error {
	var err error
	if d.clients["inproc"] == nil {
		if d.clients["inproc"], err = d.stack.Attach(ctx, "c18sim"); err != nil {
			return fmt.Errorf("attach: %v", err)
		}
	}
	if d.clients["ipc"] == nil {
		if d.clients["ipc"], err = rpcclient.DialIPC(ctx, filepath.Join(d.dir, "aqua.ipc")); err != nil {
			return fmt.Errorf("ipc: %v", err)
		}
	}
	if d.clients["http"], err = rpcclient.DialHTTP(fmt.Sprintf("http://127.0.0.1:%d", d.httpPort)); err != nil {
		return fmt.Errorf("http: %v", err)
	}
	if d.clients["ws"], err = rpcclient.DialWebsocket(ctx, fmt.Sprintf("ws://127.0.0.1:%d", d.wsPort), "http://localhost"); err != nil {
		return fmt.Errorf("ws: %v", err)
	}
	return nil
}

func (d *deployment) close() {
	done := make(chan struct{})
	go func() {
		for _, c := range d.clients {
			if c != nil {
				c.Close()
			}
		}
		d.stack.Stop()
		d.cancel()
		close(done)
	}()
	select {
	case <-done:
	case <-time.After(5 * time.Second):
	}
	os.Chdir("/")
	os.RemoveAll(d.dir)
}

// call makes one client call and records what the keystore did meanwhile.
func (d *deployment) call(res *ChildResult, phase, tr, method, variant string, args []any) Obs {
	o := Obs{Phase: phase, Transport: tr, Method: method, Variant: variant}
	ab, _ := json.Marshal(args)
	o.Args = string(ab)
	if len(o.Args) > 400 {
		o.Args = o.Args[:400] + "…"
	}
	sigMu.Lock()
	sigLabel, sigFns = tr+" "+method, nil
	sigMu.Unlock()
	ctx, cancel := context.WithTimeout(context.Background(), 8*time.Second)
	var result json.RawMessage
	err := d.clients[tr].CallContext(ctx, &result, method, args...)
	timedOut := ctx.Err() != nil
	cancel()
	if err != nil {
		o.Err = err.Error()
		if len(o.Err) > 200 {
			o.Err = o.Err[:200]
		}
		o.TimedOut = timedOut
	}
	o.HasResult = err == nil && len(result) > 0 && string(result) != "null"
	// a signing triggered by the call but finishing a moment after the reply
	// (none known) would be caught by the background list
	sigMu.Lock()
	o.SignFns, o.Signed = sigFns, len(sigFns)
	sigLabel, sigFns = "", nil
	sigMu.Unlock()
	res.Up[tr]++
	res.Obs = append(res.Obs, o)
	return o
}

// roles of the account / passphrase arguments
type variant struct {
	name string
	addr common.Address
	pass string
}

func (d *deployment) variants() []variant {
	return []variant{
		{"unlocked/right", d.addrU, passRight},
		{"unlocked/wrong", d.addrU, passWrong},
		{"locked/right", d.addrL, passRight},
		{"locked/wrong", d.addrL, passWrong},
	}
}

func (d *deployment) sendArgs(a common.Address) map[string]any {
	tx := d.poolTx[a]
	return map[string]any{
		"from":     a,
		"to":       tx.To(),
		"gas":      hexutil.Uint64(tx.Gas()),
		"gasPrice": (*hexutil.Big)(tx.GasPrice()),
		"value":    (*hexutil.Big)(tx.Value()),
		"nonce":    hexutil.Uint64(tx.Nonce()),
	}
}

// synth builds an argument of Go type t for variant v.
func (d *deployment) synth(t reflect.Type, v variant, rng *kernel.RNG, depth int) any {
	if t.Kind() == reflect.Ptr {
		return d.synth(t.Elem(), v, rng, depth)
	}
	switch t.String() {
	case "common.Address":
		return v.addr
	case "common.Hash":
		return d.poolTx[v.addr].Hash()
	case "aquaapi.SendTxArgs":
		return d.sendArgs(v.addr)
	case "types.Transaction":
		// a complete transaction object (the account's pending one, signed by the harness)
		return d.poolTx[v.addr]
	case "types.Header":
		return map[string]any{}
	case "aquaapi.CallArgs":
		return map[string]any{"from": v.addr, "to": d.other}
	case "hexutil.Bytes":
		return hexutil.Bytes("c18 message")
	case "hexutil.Big":
		return (*hexutil.Big)(big.NewInt(4_000_000_000))
	case "hexutil.Uint64":
		return hexutil.Uint64(21000)
	case "hexutil.Uint":
		return hexutil.Uint(0)
	case "rpc.BlockNumber":
		return "latest"
	case "accounts.Account":
		return map[string]any{"address": v.addr}
	case "big.Int":
		return 1
	case "time.Duration":
		return 1
	}
	switch t.Kind() {
	case reflect.String:
		return v.pass
	case reflect.Bool:
		return rng.Intn(2) == 0
	case reflect.Int, reflect.Int8, reflect.Int16, reflect.Int32, reflect.Int64:
		return 1
	case reflect.Uint, reflect.Uint8, reflect.Uint16, reflect.Uint32, reflect.Uint64:
		return 0
	case reflect.Float32, reflect.Float64:
		return 1.0
	case reflect.Slice, reflect.Array:
		if t.Kind() == reflect.Slice && t.Elem().Kind() == reflect.Uint8 {
			return hexutil.Bytes("c18 message")
		}
		return []any{}
	case reflect.Map, reflect.Struct:
		return map[string]any{}
	case reflect.Interface:
		return v.addr
	}
	return nil
}

// argument overrides: values that would make the node useless for the rest of
// the run (not related to signing).
var intOverride = map[string]int{
	"debug_setGCPercent": 100,
	"debug_verbosity":    0,
}

// methods the sweep does not call, with the reason (reported in the evidence).
var skip = map[string]string{
	"admin_shutdown": "stops the node under test",
	"admin_stopRPC":  "exercised by the restart scenario instead (would end the HTTP endpoint mid-sweep)",
	"admin_stopWS":   "exercised by the restart scenario instead (would end the WS endpoint mid-sweep)",
	"miner_start":    "called in the probe phase followed by miner_stop (CPU)",
}

func (d *deployment) run(p *Plan, res *ChildResult) {
	rng := kernel.NewRNG(p.Order)
	res.Namespaces = d.allNS
	names := map[string]bool{}
	for _, m := range d.apis {
		names[m.Name] = true
	}
	res.Methods = len(names)
	for k, why := range skip {
		res.Skipped = append(res.Skipped, k+": "+why)
	}
	sort.Strings(res.Skipped)
	only := map[string]bool{}
	for _, o := range p.Only {
		only[o] = true
	}
	want := func(tr, method string) bool { return len(only) == 0 || only[tr+" "+method] }

	if p.Restart {
		d.restart(res)
		if res.Infra != "" {
			return
		}
	}

	// phase 1: probes — the well-known signing methods, each variant, every
	// transport, on the freshly started node (U unlocked, L locked).
	for _, tr := range Transports {
		for _, v := range d.variants() {
			probes := []struct {
				m    string
				args []any
			}{
				{"personal_sign", []any{hexutil.Bytes("c18 message"), v.addr, v.pass}},
				{"aqua_sign", []any{v.addr, hexutil.Bytes("c18 message")}},
				{"personal_signTransaction", []any{d.sendArgs(v.addr), v.pass}},
				{"aqua_signTransaction", []any{d.sendArgs(v.addr)}},
				{"personal_sendTransaction", []any{d.sendArgs(v.addr), v.pass}},
				{"aqua_sendTransaction", []any{d.sendArgs(v.addr)}},
				{"personal_signAndSendTransaction", []any{d.sendArgs(v.addr), v.pass}},
				{"aqua_resend", []any{d.sendArgs(v.addr), (*hexutil.Big)(big.NewInt(4_000_000_000)), hexutil.Uint64(21000)}},
				{"eth_sign", []any{v.addr, hexutil.Bytes("c18 message")}},
				{"eth_sendTransaction", []any{d.sendArgs(v.addr)}},
			}
			for _, pr := range probes {
				if want(tr, pr.m) {
					d.call(res, "probe", tr, pr.m, v.name, pr.args)
				}
			}
		}
		if want(tr, "miner_start") {
			d.call(res, "probe", tr, "miner_start", "-", []any{1})
			d.call(res, "probe", tr, "miner_stop", "-", nil)
		}
	}

	// phase 2: the sweep — every exported method of every API object, every
	// variant, every transport, in seeded order.
	type job struct {
		tr string
		m  apiMethod
		v  variant
	}
	var jobs []job
	for _, tr := range Transports {
		for _, m := range d.apis {
			if _, s := skip[m.Name]; s || !want(tr, m.Name) {
				continue
			}
			for _, v := range d.variants() {
				jobs = append(jobs, job{tr, m, v})
			}
		}
	}
	perm := rng.Perm(len(jobs))
	seen := map[string]bool{}
	for _, i := range perm {
		j := jobs[i]
		args := make([]any, 0, len(j.m.Params))
		for _, t := range j.m.Params {
			a := d.synth(t, j.v, rng, 0)
			if ov, ok := intOverride[j.m.Name]; ok {
				if _, isInt := a.(int); isInt {
					a = ov
				}
			}
			args = append(args, a)
		}
		ab, _ := json.Marshal(args)
		key := j.tr + " " + j.m.Name + " " + string(ab)
		if seen[key] {
			continue // the variant does not change this method's arguments
		}
		seen[key] = true
		d.call(res, "sweep", j.tr, j.m.Name, j.v.name, args)
	}
	time.Sleep(50 * time.Millisecond)
	sigMu.Lock()
	res.Background = append(res.Background, sigBack...)
	sigMu.Unlock()
}

// restart stops and restarts the HTTP and WS endpoints through the admin API
// (over IPC, which always carries the admin namespace).
func (d *deployment) restart(res *ChildResult) {
	ipc := d.clients["ipc"]
	apis := strings.Join(knownNS, ",")
	var ok bool
	ctx, cancel := context.WithTimeout(context.Background(), 10*time.Second)
	defer cancel()
	d.clients["http"].Close()
	d.clients["ws"].Close()
	if err := ipc.CallContext(ctx, &ok, "admin_stopRPC"); err != nil {
		res.Infra = "admin_stopRPC: " + err.Error()
		return
	}
	if err := ipc.CallContext(ctx, &ok, "admin_stopWS"); err != nil {
		res.Infra = "admin_stopWS: " + err.Error()
		return
	}
	d.httpPort, d.wsPort = freePort(), freePort()
	var nl netutil.Netlist
	nl.Add("127.0.0.1/32")
	if err := ipc.CallContext(ctx, &ok, "admin_startRPC", "127.0.0.1", d.httpPort, "*", apis, "*"); err != nil {
		res.Infra = "admin_startRPC: " + err.Error()
		return
	}
	if err := ipc.CallContext(ctx, &ok, "admin_startWS", "127.0.0.1", d.wsPort, "*", nl, apis); err != nil {
		res.Infra = "admin_startWS: " + err.Error()
		return
	}
	if err := d.dial(ctx); err != nil {
		res.Infra = "redial: " + err.Error()
		return
	}
	res.Restarted = []string{"http", "ws"}
}

func keyFromHex(h string) *btcec.PrivateKey {
	k, _ := btcec.PrivKeyFromBytes(common.FromHex(h))
	return k
}
