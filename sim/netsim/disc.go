// Package netsim holds the network-level simulations of C17: in-memory
// datagram and stream transports on the fake clock carrying attacker-crafted
// and fault-damaged traffic to the real discovery table, RLPx transport and
// sub-protocol handler.
package netsim

import (
	"encoding/hex"
	"encoding/json"
	"errors"
	"fmt"
	"math/big"
	mrand "math/rand"
	"net"
	"sync"
	"testing"
	"testing/cryptotest"
	"time"

	"github.com/btcsuite/btcd/btcec/v2"
	"gitlab.com/aquachain/aquachain/crypto"
	"gitlab.com/aquachain/aquachain/p2p/discover"
	"verifsim/chainsim"
	"verifsim/kernel"
	"verifsim/refmodel"
)

// ---- simulated datagram network -------------------------------------------------------------

type dgram struct {
	b    []byte
	from *net.UDPAddr
}

type packetNet struct {
	mu    sync.Mutex
	conns map[string]*packetConn
	sent  int
}

type packetConn struct {
	n      *packetNet
	addr   *net.UDPAddr
	in     chan dgram
	closed chan struct{}
	once   sync.Once
}

func newPacketNet() *packetNet { return &packetNet{conns: map[string]*packetConn{}} }

func (n *packetNet) listen(ip string, port int) *packetConn {
	c := &packetConn{n: n, addr: &net.UDPAddr{IP: net.ParseIP(ip), Port: port}, in: make(chan dgram, 4096), closed: make(chan struct{})}
	n.mu.Lock()
	n.conns[c.addr.String()] = c
	n.mu.Unlock()
	return c
}

func (c *packetConn) ReadFromUDP(b []byte) (int, *net.UDPAddr, error) {
	select {
	case d := <-c.in:
		return copy(b, d.b), d.from, nil
	case <-c.closed:
		return 0, nil, errors.New("simulated socket closed")
	}
}

func (c *packetConn) WriteToUDP(b []byte, to *net.UDPAddr) (int, error) {
	c.n.deliver(append([]byte{}, b...), c.addr, to)
	return len(b), nil
}

func (c *packetConn) Close() error        { c.once.Do(func() { close(c.closed) }); return nil }
func (c *packetConn) LocalAddr() net.Addr { return c.addr }

func (n *packetNet) deliver(b []byte, from, to *net.UDPAddr) {
	n.mu.Lock()
	dst := n.conns[to.String()]
	n.sent++
	n.mu.Unlock()
	if dst == nil {
		return
	}
	select {
	case dst.in <- dgram{b, from}:
	default: // receive buffer full: dropped, as a kernel would
	}
}

// ---- packet crafting (independent of the repository's encoder) ------------------------------

const (
	dMac  = 32
	dSig  = 65
	dHead = dMac + dSig
)

func rlpUint(x uint64) []byte { return refmodel.RlpBytes(new(big.Int).SetUint64(x).Bytes()) }

func rlpEndpoint(ip net.IP, udp, tcp uint16) []byte {
	return refmodel.RlpList(refmodel.RlpBytes(ip.To4()), rlpUint(uint64(udp)), rlpUint(uint64(tcp)))
}

// signedPacket frames and signs an arbitrary body: hash || sig || body.
func signedPacket(key *btcec.PrivateKey, body []byte) []byte {
	p := make([]byte, dHead, dHead+len(body))
	p = append(p, body...)
	sig, err := crypto.Sign(refmodel.Keccak(p[dHead:]), key)
	if err != nil {
		panic(err)
	}
	copy(p[dMac:], sig)
	copy(p, refmodel.Keccak(p[dMac:]))
	return p
}

func pingBody(from, to *net.UDPAddr, exp uint64) []byte {
	b := []byte{134} // aqua ping
	b = append(b, "aqua"...)
	return append(b, refmodel.RlpList(rlpUint(4), rlpEndpoint(from.IP, uint16(from.Port), uint16(from.Port)), rlpEndpoint(to.IP, uint16(to.Port), uint16(to.Port)), rlpUint(exp))...)
}

// ---- plan ---------------------------------------------------------------------------------

type Datagram struct {
	Kind string `json:"k"`
	A    int    `json:"a,omitempty"`
	B    int    `json:"b,omitempty"`
	Hex  string `json:"hex,omitempty"`
}

type DiscPlan struct {
	Mode    string     `json:"mode"` // disc | rlpx | proto
	Tables  int        `json:"tables"`
	Attack  []Datagram `json:"attack"`
	KeySeed uint64     `json:"key_seed"`
	// Neighbors, when non-empty: the attacker bonds with the victim, the victim
	// is made to look a target up, and the attacker answers its FINDNODE with
	// NEIGHBORS packets carrying these entries.
	Neighbors []Neighbor `json:"neighbors,omitempty"`
	// rlpx / proto plans live in the same envelope (see rlpx.go, proto.go)
	Rlpx  *RlpxPlan  `json:"rlpx,omitempty"`
	Proto *ProtoPlan `json:"proto,omitempty"`
	Peer  *PeerPlan  `json:"peer,omitempty"`
	DL    *DLPlan    `json:"dl,omitempty"`
}

// Neighbor is one entry of a solicited NEIGHBORS reply.
type Neighbor struct {
	IP  string `json:"ip"` // hex bytes of the ip field (any length)
	UDP uint16 `json:"udp"`
	TCP uint16 `json:"tcp"`
	ID  string `json:"id"` // "valid" (a fresh key), "self" (the victim), "dup" (same as previous), "offcurve", "short", "zero"
}

func DecodePlan(raw json.RawMessage) (any, error) {
	p := &DiscPlan{}
	err := json.Unmarshal(raw, p)
	return p, err
}
func HashPlan(p any) uint64 { b, _ := json.Marshal(p); return kernel.HashBytes(b) }

func keyFrom(seed uint64, i int) *btcec.PrivateKey {
	k, err := crypto.BytesToKey(refmodel.Keccak([]byte(fmt.Sprintf("netsim-key-%d-%d", seed, i))))
	if err != nil {
		panic(err)
	}
	return k
}

func genDisc(rng *kernel.RNG, env *kernel.Env) *DiscPlan {
	p := &DiscPlan{Mode: "disc", Tables: rng.Range(1, 3), KeySeed: rng.Uint64()}
	kinds := []string{"random", "trunc", "flip", "flip-rehash", "signed-short", "signed-garbage", "signed-expired", "signed-unknown-type", "signed-neighbors-flood", "signed-findnode", "valid-ping"}
	n := rng.Range(5, 60)
	if env.Thorough() {
		n = rng.Range(50, 400)
	}
	for i := 0; i < n; i++ {
		p.Attack = append(p.Attack, Datagram{Kind: kinds[rng.Intn(len(kinds))], A: rng.Intn(1400), B: rng.Intn(256)})
	}
	if rng.Intn(2) == 0 {
		ips := []string{"0a090909", "0a090a01", "08080808", "7f000001", "c0a80001", "00000000", "ffffffff", "e0000001",
			"20010db8000000000000000000000001", "00000000000000000000ffff0a090901", "fe800000000000000000000000000001", "0a0909", "0a09090909", ""}
		ids := []string{"valid", "valid", "valid", "self", "dup", "offcurve", "short", "zero"}
		ports := []uint16{30303, 30303, 0, 1, 1024, 1025, 65535}
		for i := rng.Range(1, 40); i > 0; i-- {
			p.Neighbors = append(p.Neighbors, Neighbor{IP: ips[rng.Intn(len(ips))], UDP: ports[rng.Intn(len(ports))], TCP: ports[rng.Intn(len(ports))], ID: ids[rng.Intn(len(ids))]})
		}
	}
	return p
}

// neighborsPackets renders the plan's entries as NEIGHBORS packets of at most 12 entries.
func neighborsPackets(p *DiscPlan, attacker *btcec.PrivateKey, victimID []byte, now int64) [][]byte {
	var out [][]byte
	var nodes [][]byte
	var prev []byte
	flush := func() {
		body := append([]byte{137}, "aqua"...)
		body = append(body, refmodel.RlpList(refmodel.RlpList(nodes...), rlpUint(uint64(now+20)))...)
		out = append(out, signedPacket(attacker, body))
		nodes = nil
	}
	for i, n := range p.Neighbors {
		ip, _ := hex.DecodeString(n.IP)
		var id []byte
		switch n.ID {
		case "self":
			id = victimID
		case "dup":
			id = prev
		case "offcurve":
			id = refmodel.Keccak([]byte(fmt.Sprintf("offcurve-%d", i)))
			id = append(id, id...)
		case "short":
			id = []byte{1, 2, 3}
		case "zero":
			id = make([]byte, 64)
		}
		if id == nil {
			k := keyFrom(p.KeySeed, 1000+i)
			id = k.PubKey().SerializeUncompressed()[1:]
		}
		prev = id
		nodes = append(nodes, refmodel.RlpList(refmodel.RlpBytes(ip), rlpUint(uint64(n.UDP)), rlpUint(uint64(n.TCP)), refmodel.RlpBytes(id)))
		if len(nodes) == 12 {
			flush()
		}
	}
	if len(nodes) > 0 || len(out) == 0 {
		flush()
	}
	return out
}

func (d Datagram) build(attacker *btcec.PrivateKey, from, to *net.UDPAddr, now int64, rng *kernel.RNG) []byte {
	valid := signedPacket(attacker, pingBody(from, to, uint64(now+20)))
	switch d.Kind {
	case "random":
		return rng.Bytes(d.A%1300 + 1)
	case "trunc":
		return valid[:d.A%(len(valid)+1)]
	case "flip":
		b := append([]byte{}, valid...)
		b[d.A%len(b)] ^= byte(d.B | 1)
		return b
	case "flip-rehash":
		b := append([]byte{}, valid...)
		b[dHead+d.A%(len(b)-dHead)] ^= byte(d.B | 1)
		copy(b, refmodel.Keccak(b[dMac:]))
		return b
	case "signed-short":
		// correctly hashed and signed, but the body is shorter than type byte + protocol tag
		body := []byte{134 + byte(d.B%4)}
		body = append(body, []byte("aqua")[:d.A%5]...)
		if d.A%5 == 0 && d.B%2 == 0 {
			body = body[:1]
		}
		return signedPacket(attacker, body)
	case "signed-garbage":
		body := append([]byte{134 + byte(d.B%4)}, "aqua"...)
		switch d.A % 4 {
		case 0:
			body = append(body, rng.Bytes(d.A%200)...)
		case 1:
			body = append(body, 0xfb, 0xff, 0xff, 0xff, 0xff) // list claiming 4 GiB
		case 2:
			body = append(body, 0xbb, 0xff, 0xff, 0xff, 0xff) // string claiming 4 GiB
		case 3:
			body = append(body, refmodel.RlpList(refmodel.RlpList(refmodel.RlpList(refmodel.RlpList())))...)
		}
		return signedPacket(attacker, body)
	case "signed-expired":
		return signedPacket(attacker, pingBody(from, to, uint64(now-100)))
	case "signed-unknown-type":
		return signedPacket(attacker, append([]byte{byte(d.B)}, "aqua\xc0"...))
	case "signed-neighbors-flood":
		var nodes [][]byte
		for i := 0; i < d.A%20; i++ {
			nodes = append(nodes, refmodel.RlpList(refmodel.RlpBytes([]byte{10, 0, 0, byte(i)}), rlpUint(30303), rlpUint(30303), refmodel.RlpBytes(rng.Bytes(64))))
		}
		body := append([]byte{137}, "aqua"...)
		body = append(body, refmodel.RlpList(refmodel.RlpList(nodes...), rlpUint(uint64(now+20)))...)
		return signedPacket(attacker, body)
	case "signed-findnode":
		body := append([]byte{136}, "aqua"...)
		body = append(body, refmodel.RlpList(refmodel.RlpBytes(rng.Bytes(64)), rlpUint(uint64(now+20)))...)
		return signedPacket(attacker, body)
	}
	return valid
}

func execDisc(p *DiscPlan, col *kernel.Collector) []kernel.Violation {
	var vs []kernel.Violation
	pn := newPacketNet()
	var tabs []*discover.Table
	var addrs []*net.UDPAddr
	for i := 0; i < p.Tables; i++ {
		c := pn.listen(fmt.Sprintf("10.0.0.%d", i+1), 30303)
		cfg := discover.Config{PrivateKey: keyFrom(p.KeySeed, i), ChainId: 1337}
		if i > 0 {
			boot, _ := discover.NewNode(tabs[0].Self().ID, addrs[0].IP, 30303, 30303)
			cfg.Bootnodes = []*discover.Node{boot}
		}
		t, err := discover.ListenUDP(c, cfg)
		if err != nil {
			return []kernel.Violation{{Class: "harness-listen", Detail: err.Error()}}
		}
		tabs = append(tabs, t)
		addrs = append(addrs, c.addr)
	}
	defer func() {
		for _, t := range tabs {
			t.Close()
		}
		time.Sleep(5 * time.Second)
	}()
	time.Sleep(2 * time.Second)
	attacker := keyFrom(p.KeySeed, 100)
	asock := pn.listen("10.9.9.9", 30303)
	rng := kernel.NewRNG(p.KeySeed)
	victim := addrs[0]
	for i, d := range p.Attack {
		col.Tick()
		b := d.build(attacker, asock.addr, victim, time.Now().Unix(), rng)
		asock.WriteToUDP(b, victim)
		col.Inc("fault_datagram_" + d.Kind)
		if i%8 == 7 {
			time.Sleep(50 * time.Millisecond)
		}
	}
	time.Sleep(time.Second)
	col.AddSim(3 * time.Second)
	if len(p.Neighbors) > 0 {
		// the attacker turns into a well-behaved peer: it answers the victim's pings,
		// gets bonded, and answers the victim's FINDNODE with the hostile entries
		stopResp := make(chan struct{})
		var findnodes, pongs int
		var mu sync.Mutex
		vid := tabs[0].Self().ID
		go func() {
			for {
				select {
				case <-stopResp:
					return
				case d := <-asock.in:
					if len(d.b) <= dHead {
						continue
					}
					switch d.b[dHead] {
					case 134: // ping: pong with the ping's hash as reply token
						body := append([]byte{135}, "aqua"...)
						body = append(body, refmodel.RlpList(rlpEndpoint(victim.IP, uint16(victim.Port), uint16(victim.Port)), refmodel.RlpBytes(d.b[:dMac]), rlpUint(uint64(time.Now().Unix()+20)))...)
						asock.WriteToUDP(signedPacket(attacker, body), victim)
						mu.Lock()
						pongs++
						mu.Unlock()
					case 136: // findnode: the hostile reply
						for _, pkt := range neighborsPackets(p, attacker, vid[:], time.Now().Unix()) {
							asock.WriteToUDP(pkt, victim)
						}
						mu.Lock()
						findnodes++
						mu.Unlock()
					}
				}
			}
		}()
		asock.WriteToUDP(signedPacket(attacker, pingBody(asock.addr, victim, uint64(time.Now().Unix()+20))), victim)
		time.Sleep(2 * time.Second)
		lookupDone := make(chan struct{})
		go func() {
			var target discover.NodeID
			copy(target[:], refmodel.Keccak([]byte("lookup-target")))
			tabs[0].Lookup(target)
			close(lookupDone)
		}()
		select {
		case <-lookupDone:
		case <-time.After(30 * time.Second):
			vs = append(vs, kernel.Violation{Class: "discovery-lookup-never-returns", Detail: "Lookup did not return within 30 simulated seconds after hostile NEIGHBORS replies"})
		}
		close(stopResp)
		col.AddSim(5 * time.Second)
		mu.Lock()
		if pongs > 0 {
			col.Inc("probe_attacker_answered_victims_ping")
		}
		if findnodes > 0 {
			col.Inc("probe_victim_queried_attacker")
			col.Add("fault_hostile_neighbor_entries", int64(len(p.Neighbors)))
		}
		mu.Unlock()
		if len(vs) > 0 {
			return vs
		}
	}
	// drain whatever the victim answered to the attacker
	for len(asock.in) > 0 {
		<-asock.in
	}
	// liveness after the garbage stops: a fresh honest prober's ping is answered within the reply timeout
	prober := keyFrom(p.KeySeed, 200)
	psock := pn.listen("10.7.7.7", 30303)
	ping := signedPacket(prober, pingBody(psock.addr, victim, uint64(time.Now().Unix()+20)))
	psock.WriteToUDP(ping, victim)
	got := false
	deadline := time.After(4 * time.Second)
wait:
	for {
		select {
		case d := <-psock.in:
			// a pong carries the hash of our ping as reply token
			if len(d.b) > dHead && d.b[dHead] == 135 && containsBytes(d.b, ping[:dMac]) {
				got = true
				break wait
			}
		case <-deadline:
			break wait
		}
	}
	if !got {
		vs = append(vs, kernel.Violation{Class: "discovery-wedged-after-garbage", Detail: fmt.Sprintf("after %d attacker datagrams a valid ping from a fresh node was not answered within the 4 s reply timeout", len(p.Attack))})
		return vs
	}
	col.Inc("probe_victim_answered_after_attack")
	kernel.SetNonTrivial()
	return vs
}

func containsBytes(h, n []byte) bool {
	for i := 0; i+len(n) <= len(h); i++ {
		if string(h[i:i+len(n)]) == string(n) {
			return true
		}
	}
	return false
}

// Exec dispatches on the plan's mode.
func Exec(t *testing.T, pa any, col *kernel.Collector) []kernel.Violation {
	p := pa.(*DiscPlan)
	var vs []kernel.Violation
	// handshake nonces, ephemeral keys and EIP-8 padding come from crypto/rand:
	// the plan owns them (stream offsets of the injected faults depend on them)
	cryptotest.SetGlobalRandom(t, HashPlan(p))
	mrand.Seed(int64(HashPlan(p) >> 1)) // the EIP-8 padding length is drawn from math/rand
	chainsim.Bubble(t, func() {
		switch p.Mode {
		case "rlpx":
			vs = execRlpx(p.Rlpx, col)
		case "proto":
			vs = execProto(p.Proto, col)
		case "peer":
			vs = execPeer(p.Peer, col)
		case "dl":
			vs = execDL(p.DL, col)
		default:
			vs = execDisc(p, col)
		}
	})
	return vs
}

// Gen draws a plan of one of the three sub-simulations.
func Gen(rng *kernel.RNG, env *kernel.Env, k int) any {
	if k%9 == 8 {
		return &DiscPlan{Mode: "dl", DL: GenDLPlan(rng, env, k).(*DLPlan)}
	}
	switch k % 4 {
	case 1:
		return &DiscPlan{Mode: "rlpx", Rlpx: genRlpx(rng, env)}
	case 2:
		return &DiscPlan{Mode: "proto", Proto: genProto(rng, env)}
	case 3:
		return &DiscPlan{Mode: "peer", Peer: genPeer(rng, env)}
	}
	return genDisc(rng, env)
}

func Shrink(pa any) []any {
	p := pa.(*DiscPlan)
	var out []any
	if p.Mode == "dl" && p.DL != nil {
		for _, c := range ShrinkDLPlan(p.DL) {
			q := *p
			q.DL = c.(*DLPlan)
			out = append(out, &q)
		}
		return out
	}
	if p.Mode == "peer" && p.Peer != nil {
		for i := range p.Peer.Frames {
			q := *p
			pp := *p.Peer
			pp.Frames = append(append([]HostileFrame{}, p.Peer.Frames[:i]...), p.Peer.Frames[i+1:]...)
			q.Peer = &pp
			out = append(out, &q)
		}
		if p.Peer.Knob != "none" {
			q := *p
			pp := *p.Peer
			pp.Knob = "none"
			q.Peer = &pp
			out = append(out, &q)
		}
	}
	if p.Mode == "disc" && len(p.Neighbors) > 1 {
		for i := range p.Neighbors {
			q := *p
			q.Neighbors = append(append([]Neighbor{}, p.Neighbors[:i]...), p.Neighbors[i+1:]...)
			out = append(out, &q)
		}
	}
	if p.Mode == "disc" {
		for size := len(p.Attack) / 2; size >= 1; size /= 2 {
			for at := len(p.Attack) - size; at >= 0; at -= size {
				q := *p
				q.Attack = append(append([]Datagram{}, p.Attack[:at]...), p.Attack[at+size:]...)
				out = append(out, &q)
			}
		}
	}
	return out
}
