package netsim

import (
	"bytes"
	"context"
	"fmt"
	"io"
	"net"
	"sync"
	"time"

	"gitlab.com/aquachain/aquachain/p2p"
	"gitlab.com/aquachain/aquachain/p2p/discover"
	"verifsim/kernel"
)

// ---- (a) RLPx session between two complete p2p.Servers over a faulty byte stream -----------

type RlpxMsg struct {
	Code uint64 `json:"code"`
	Size int    `json:"size"`
	Fill byte   `json:"fill"`
}

type StreamFault struct {
	Kind   string `json:"k"`   // none | flip | drop | insert | close | stall
	Dir    int    `json:"dir"` // 0: dialer->listener, 1: listener->dialer
	Offset int    `json:"off"`
	Arg    int    `json:"arg"`
}

type RlpxPlan struct {
	KeySeed uint64        `json:"key_seed"`
	Msgs    []RlpxMsg     `json:"msgs"`
	Chunk   int           `json:"chunk"` // max bytes forwarded per write (fragmentation)
	Faults  []StreamFault `json:"faults"`
}

func genRlpx(rng *kernel.RNG, env *kernel.Env) *RlpxPlan {
	p := &RlpxPlan{KeySeed: rng.Uint64(), Chunk: []int{1, 3, 7, 16, 64, 1 << 20}[rng.Intn(6)]}
	sizes := []int{0, 1, 2, 55, 56, 57, 255, 256, 1024, 4096, 65535, 65536, 70000}
	if env.Thorough() {
		sizes = append(sizes, 1<<20, 1<<24-1024)
	}
	for i := rng.Range(1, 8); i > 0; i-- {
		p.Msgs = append(p.Msgs, RlpxMsg{Code: uint64(rng.Intn(16)), Size: sizes[rng.Intn(len(sizes))], Fill: byte(rng.Intn(256))})
	}
	switch rng.Intn(6) {
	case 0: // fault-free
	default:
		// the encrypted handshake is a few hundred bytes per direction; later offsets land in frames
		off := []int{0, 1, 10, 64, 150, 300, 400, 500, 600, 700, 900, 1200, 2000, 5000}[rng.Intn(14)]
		p.Faults = append(p.Faults, StreamFault{Kind: []string{"flip", "flip", "drop", "insert", "close", "stall"}[rng.Intn(6)], Dir: rng.Intn(2), Offset: off + rng.Intn(40), Arg: rng.Intn(256)})
	}
	return p
}

// faultyLink copies bytes from src to dst applying the plan's faults for one direction.
type faultyLink struct {
	dir   int
	plan  *RlpxPlan
	col   *kernel.Collector
	count int
	fired bool
}

func (l *faultyLink) run(src, dst net.Conn, wg *sync.WaitGroup) {
	defer wg.Done()
	defer dst.Close()
	defer src.Close()
	buf := make([]byte, 32*1024)
	for {
		n, err := src.Read(buf)
		if n > 0 {
			out := append([]byte{}, buf[:n]...)
			for _, f := range l.plan.Faults {
				if f.Dir != l.dir || l.fired {
					continue
				}
				if f.Offset >= l.count && f.Offset < l.count+n {
					i := f.Offset - l.count
					l.fired = true
					l.col.Inc("fault_stream_" + f.Kind)
					switch f.Kind {
					case "flip":
						out[i] ^= byte(f.Arg | 1)
					case "drop":
						out = append(out[:i], out[i+1:]...)
					case "insert":
						out = append(out[:i], append([]byte{byte(f.Arg)}, out[i:]...)...)
					case "close":
						dst.Write(out[:i])
						return
					case "stall":
						dst.Write(out[:i])
						time.Sleep(time.Duration(40+f.Arg) * time.Second) // beyond handshake and frame timeouts
						out = out[i:]
					}
				}
			}
			l.count += n
			for len(out) > 0 {
				k := l.plan.Chunk
				if k <= 0 || k > len(out) {
					k = len(out)
				}
				if _, werr := dst.Write(out[:k]); werr != nil {
					return
				}
				out = out[k:]
			}
		}
		if err != nil {
			return
		}
	}
}

type recvMsg struct {
	code uint64
	size uint32
	sum  []byte
}

func execRlpx(p *RlpxPlan, col *kernel.Collector) []kernel.Violation {
	var vs []kernel.Violation
	p2p.NoCountdown = true
	var mu sync.Mutex
	var received []recvMsg
	var readErr error
	running := make(chan struct{}, 4)
	mkProto := func(sender bool) p2p.Protocol {
		return p2p.Protocol{Name: "sim", Version: 1, Length: 16, Run: func(peer *p2p.Peer, rw p2p.MsgReadWriter) error {
			running <- struct{}{}
			if sender {
				for _, m := range p.Msgs {
					payload := bytes.Repeat([]byte{m.Fill}, m.Size)
					if err := rw.WriteMsg(p2p.Msg{Code: m.Code, Size: uint32(m.Size), Payload: bytes.NewReader(payload)}); err != nil {
						return err
					}
				}
				// keep the session open until the other side goes away
				for {
					msg, err := rw.ReadMsg()
					if err != nil {
						return err
					}
					msg.Discard()
				}
			}
			for {
				msg, err := rw.ReadMsg()
				if err != nil {
					mu.Lock()
					readErr = err
					mu.Unlock()
					return err
				}
				b, rerr := io.ReadAll(msg.Payload)
				mu.Lock()
				received = append(received, recvMsg{msg.Code, msg.Size, b})
				mu.Unlock()
				if rerr != nil {
					return rerr
				}
			}
		}}
	}
	kA, kB := keyFrom(p.KeySeed, 1), keyFrom(p.KeySeed, 2)
	srvA := &p2p.Server{Config: &p2p.Config{PrivateKey: kA, MaxPeers: 10, NoDiscovery: true, NoDial: true, Name: "dialer", ChainId: 3, Protocols: []p2p.Protocol{mkProto(true)}}}
	srvB := &p2p.Server{Config: &p2p.Config{PrivateKey: kB, MaxPeers: 10, NoDiscovery: true, NoDial: true, Name: "listener", ChainId: 3, Protocols: []p2p.Protocol{mkProto(false)}}}
	ctx := context.Background()
	if err := srvA.Start(ctx); err != nil {
		return []kernel.Violation{{Class: "harness-server-start", Detail: err.Error()}}
	}
	if err := srvB.Start(ctx); err != nil {
		return []kernel.Violation{{Class: "harness-server-start", Detail: err.Error()}}
	}
	defer func() {
		srvA.Stop()
		srvB.Stop()
		time.Sleep(5 * time.Second)
	}()
	// A <-> link <-> B
	a1, a2 := connPair()
	b1, b2 := connPair()
	var wg sync.WaitGroup
	wg.Add(2)
	go (&faultyLink{dir: 0, plan: p, col: col}).run(a2, b2, &wg)
	go (&faultyLink{dir: 1, plan: p, col: col}).run(b2, a2, &wg)
	nodeB, _ := discover.NewNode(discover.PubkeyID(kB.PubKey().ToECDSA()), net.IP{10, 0, 0, 2}, 30303, 30303)
	errA := make(chan error, 1)
	errB := make(chan error, 1)
	go func() { errA <- srvA.SetupConn(a1, 1 /* dynDialedConn */, nodeB) }()
	go func() { errB <- srvB.SetupConn(b1, 4 /* inboundConn */, nil) }()
	// let the session run: handshakes, messages, timeouts (60 simulated seconds cover the
	// 5 s handshake timeout, the 30 s frame read timeout and the 15 s ping interval)
	for i := 0; i < 120; i++ {
		time.Sleep(500 * time.Millisecond)
		col.Tick()
	}
	col.AddSim(60 * time.Second)
	faulty := len(p.Faults) > 0
	mu.Lock()
	got := append([]recvMsg{}, received...)
	rerr := readErr
	mu.Unlock()
	// what the receiver was handed is a byte-identical prefix of what the sender wrote
	if len(got) > len(p.Msgs) {
		vs = append(vs, kernel.Violation{Class: "rlpx-extra-message-delivered", Detail: fmt.Sprintf("%d messages delivered, %d written", len(got), len(p.Msgs))})
		return vs
	}
	for i, g := range got {
		m := p.Msgs[i]
		if g.code != m.Code || int(g.size) != m.Size || !bytes.Equal(g.sum, bytes.Repeat([]byte{m.Fill}, m.Size)) {
			vs = append(vs, kernel.Violation{Class: "rlpx-delivered-message-differs", Detail: fmt.Sprintf("message %d: delivered code %d size %d (%d payload bytes), written code %d size %d fill %#x; faults %+v", i, g.code, g.size, len(g.sum), m.Code, m.Size, m.Fill, p.Faults)})
			return vs
		}
	}
	col.Add("rlpx_messages_delivered_intact", int64(len(got)))
	if !faulty {
		if len(got) != len(p.Msgs) {
			vs = append(vs, kernel.Violation{Class: "rlpx-message-lost-without-fault", Detail: fmt.Sprintf("fault-free session delivered %d of %d messages (read error: %v)", len(got), len(p.Msgs), rerr)})
			return vs
		}
		col.Inc("probe_fault_free_session_complete")
	} else {
		if len(got) < len(p.Msgs) {
			col.Inc("probe_tampered_session_cut_short")
		}
		// a damaged stream must not leave a wedged peer behind: after every timeout has
		// passed both servers have dropped the connection or it is a healthy session
		if (srvA.PeerCount() == 0) != (srvB.PeerCount() == 0) {
			time.Sleep(40 * time.Second)
			if (srvA.PeerCount() == 0) != (srvB.PeerCount() == 0) {
				vs = append(vs, kernel.Violation{Class: "rlpx-half-open-session-after-fault", Detail: fmt.Sprintf("100 simulated seconds after the fault the dialer has %d peers and the listener %d; faults %+v", srvA.PeerCount(), srvB.PeerCount(), p.Faults)})
				return vs
			}
		}
	}
	a1.Close()
	b1.Close()
	kernel.SetNonTrivial()
	return vs
}
