package netsim

import (
	"bytes"
	"errors"
	"fmt"
	"io"
	"math/big"
	"runtime"
	"strings"
	"sync/atomic"
	"time"

	"gitlab.com/aquachain/aquachain/aqua"
	"gitlab.com/aquachain/aquachain/aqua/downloader"
	"gitlab.com/aquachain/aquachain/aqua/event"
	"gitlab.com/aquachain/aquachain/common"
	"gitlab.com/aquachain/aquachain/core"
	"gitlab.com/aquachain/aquachain/p2p"
	"gitlab.com/aquachain/aquachain/p2p/discover"
	"gitlab.com/aquachain/aquachain/rlp"
	"verifsim/chainsim"
	"verifsim/kernel"
)

// ---- (c) the real aqua sub-protocol handler fed by an attacker over a message pipe -----------

type ProtoMsg struct {
	Code uint64 `json:"code"`
	Kind string `json:"k"`
	A    int    `json:"a,omitempty"`
	B    int    `json:"b,omitempty"`
}

type ProtoPlan struct {
	Seed      uint64     `json:"seed"`
	Blocks    int        `json:"blocks"`
	BadStatus int        `json:"bad_status"` // 0 = valid handshake
	Msgs      []ProtoMsg `json:"msgs"`
}

func genProto(rng *kernel.RNG, env *kernel.Env) *ProtoPlan {
	p := &ProtoPlan{Seed: rng.Uint64(), Blocks: rng.Range(2, 12)}
	if rng.Bool(0.15) {
		p.BadStatus = rng.Range(1, 5)
	}
	kinds := []string{"valid", "empty", "truncated", "wrong-type", "oversize-claim", "reader-fails", "huge-count", "deep-nesting", "random"}
	codes := []uint64{0, 1, 2, 3, 4, 5, 6, 7, 0xd, 0xe, 0xf, 0x10, 0x11, 0x20}
	for i := rng.Range(1, 25); i > 0; i-- {
		p.Msgs = append(p.Msgs, ProtoMsg{Code: codes[rng.Intn(len(codes))], Kind: kinds[rng.Intn(len(kinds))], A: rng.Intn(1 << 16), B: rng.Intn(256)})
	}
	return p
}

// countingReader is a payload that counts what the handler pulls out of it and
// may fail mid-message.
type countingReader struct {
	data   []byte
	pos    int
	failAt int // -1 never
	read   *int64
}

func (r *countingReader) Read(b []byte) (int, error) {
	if r.failAt >= 0 && r.pos >= r.failAt {
		return 0, errors.New("simulated payload reader failure")
	}
	if r.pos >= len(r.data) {
		return 0, io.EOF
	}
	n := copy(b, r.data[r.pos:])
	if r.failAt >= 0 && r.pos+n > r.failAt {
		n = r.failAt - r.pos
	}
	r.pos += n
	atomic.AddInt64(r.read, int64(n))
	return n, nil
}

func execProto(p *ProtoPlan, col *kernel.Collector) []kernel.Violation {
	var vs []kernel.Violation
	chainsim.ResetCrit()
	rng := kernel.NewRNG(p.Seed)
	o := chainsim.GenOpts{MinMain: p.Blocks, MaxMain: p.Blocks, MaxForks: 0, MaxTx: 3, Uncles: false, ForkModes: []string{"allhf"}}
	rec := chainsim.GenRecipe(rng, o)
	u, err := chainsim.Build(&rec)
	if err != nil {
		col.Inc("universe_build_failed")
		return nil
	}
	defer func() { u.Close(); time.Sleep(3 * time.Second) }()
	n, err := chainsim.NewNode(u, chainsim.NodeCfg{Archive: true, Scale: 1})
	if err != nil {
		return nil
	}
	var ids []int
	for id := 1; id < len(u.Blocks); id++ {
		ids = append(ids, id)
	}
	n.Insert(ids)
	pool := core.NewTxPool(core.TxPoolConfig{Journal: "", Rejournal: time.Hour, PriceLimit: 1, PriceBump: 10, AccountSlots: 16, GlobalSlots: 4096, AccountQueue: 64, GlobalQueue: 1024, Lifetime: time.Hour}, u.Cfg, n.BC)
	defer pool.Stop()
	pm, err := aqua.NewProtocolManager(u.Cfg, downloader.FullSync, 1337, new(event.TypeMux), pool, u.Engine, n.BC, n.Disk)
	if err != nil {
		return []kernel.Violation{{Class: "harness-protocol-manager", Detail: err.Error()}}
	}
	pm.Start(10)
	defer pm.Stop()
	rw1, rw2 := p2p.MsgPipe()
	var id discover.NodeID
	copy(id[:], rng.Bytes(64))
	peer := p2p.NewPeer(id, "attacker", []p2p.Cap{{Name: "aqua", Version: 64}})
	done := make(chan struct{})
	go func() { pm.SubProtocols[0].Run(peer, rw1); close(done) }()
	// drain whatever the handler sends us (status, replies): back-pressure is not the subject
	go func() {
		for {
			msg, err := rw2.ReadMsg()
			if err != nil {
				return
			}
			msg.Discard()
		}
	}()
	head := n.BC.CurrentBlock()
	status := []interface{}{uint32(64), uint64(1337), n.BC.GetTd(head.Hash(), head.NumberU64()), head.Hash(), n.BC.Genesis().Hash()}
	switch p.BadStatus {
	case 1:
		status[1] = uint64(1)
	case 2:
		status[4] = common.Hash{1}
	case 3:
		status[0] = uint32(3)
	case 4:
		status = status[:2]
	}
	sb, _ := rlp.EncodeToBytes(status)
	var pulled int64
	send := func(code uint64, size uint32, r *countingReader) error {
		errc := make(chan error, 1)
		go func() { errc <- rw2.WriteMsg(p2p.Msg{Code: code, Size: size, Payload: r}) }()
		select {
		case e := <-errc:
			return e
		case <-time.After(30 * time.Second):
			return errors.New("write not consumed within 30 simulated seconds")
		}
	}
	if e := send(0, uint32(len(sb)), &countingReader{data: sb, failAt: -1, read: &pulled}); e != nil {
		col.Inc("status_write_failed")
	}
	gone := func() bool {
		select {
		case <-done:
			return true
		default:
			return false
		}
	}
	time.Sleep(100 * time.Millisecond)
	for i, m := range p.Msgs {
		col.Tick()
		if gone() {
			col.Inc("probe_peer_dropped_by_handler")
			break
		}
		payload := protoPayload(u, m, rng)
		size := uint32(len(payload))
		fail := -1
		switch m.Kind {
		case "oversize-claim":
			size = 10*1024*1024 + 1 + uint32(m.A)
		case "reader-fails":
			if len(payload) > 0 {
				fail = m.A % len(payload)
			}
		}
		before := atomic.LoadInt64(&pulled)
		e := send(m.Code, size, &countingReader{data: payload, failAt: fail, read: &pulled})
		col.Inc("fault_protocol_msg_" + m.Kind)
		if m.Kind == "oversize-claim" {
			if got := atomic.LoadInt64(&pulled) - before; got > 0 {
				vs = append(vs, kernel.Violation{Class: "oversized-message-payload-read", Step: i, Detail: fmt.Sprintf("message code %#x announcing %d bytes (limit 10 MiB): the handler pulled %d payload bytes before rejecting it", m.Code, size, got)})
				return vs
			}
		}
		if e != nil && e.Error() == "write not consumed within 30 simulated seconds" && !gone() {
			vs = append(vs, kernel.Violation{Class: "protocol-handler-wedged", Step: i, Detail: fmt.Sprintf("message %d (code %#x kind %s) was not consumed within 30 simulated seconds and the handler has not returned", i, m.Code, m.Kind)})
			return vs
		}
		time.Sleep(20 * time.Millisecond)
	}
	// the peer goes away: the handler must return within bounded time
	rw2.Close()
	select {
	case <-done:
		col.Inc("probe_handler_returned_after_close")
	case <-time.After(60 * time.Second):
		vs = append(vs, kernel.Violation{Class: "protocol-handler-wedged", Detail: "the sub-protocol handler did not return within 60 simulated seconds after the peer closed the connection; handler goroutines: " + stacksOf("aqua.(*ProtocolManager).handle")})
		return vs
	}
	col.AddSim(time.Minute)
	kernel.SetNonTrivial()
	return vs
}

func protoPayload(u *chainsim.Universe, m ProtoMsg, rng *kernel.RNG) []byte {
	enc := func(v interface{}) []byte { b, _ := rlp.EncodeToBytes(v); return b }
	valid := func() []byte {
		b := u.Blocks[1+m.A%(len(u.Blocks)-1)]
		switch m.Code {
		case 1: // NewBlockHashes
			return enc([]interface{}{[]interface{}{b.Hash(), b.NumberU64()}})
		case 2: // Tx
			return enc(b.Transactions())
		case 3: // GetBlockHeaders {origin{hash|number}, amount, skip, reverse}
			return enc([]interface{}{b.NumberU64(), uint64(m.B % 8), uint64(m.B % 3), m.B%2 == 0})
		case 4:
			return enc([]interface{}{b.Header()})
		case 5, 0xd, 0xf:
			return enc([]common.Hash{b.Hash(), b.Root()})
		case 6:
			return enc([]interface{}{[]interface{}{b.Transactions(), b.Uncles()}})
		case 7:
			return enc([]interface{}{b, new(big.Int).SetUint64(1)})
		case 0xe:
			return enc([][]byte{{1, 2, 3}})
		case 0x10:
			return enc([]interface{}{[]interface{}{}})
		}
		return enc([]interface{}{})
	}
	switch m.Kind {
	case "valid", "oversize-claim", "reader-fails":
		return valid()
	case "empty":
		return nil
	case "truncated":
		v := valid()
		if len(v) == 0 {
			return v
		}
		return v[:m.A%len(v)]
	case "wrong-type":
		return enc([]byte("not-a-list"))
	case "huge-count":
		if m.Code == 3 {
			return enc([]interface{}{uint64(1), uint64(1<<63 + uint64(m.A)), uint64(1 << 62), m.B%2 == 0})
		}
		hs := make([]common.Hash, 2000+m.A%3000)
		return enc(hs)
	case "deep-nesting":
		b := []byte{0xc0}
		for i := 0; i < 200+m.A%2000; i++ {
			b = append(rlpListHeader(len(b)), b...)
		}
		return b
	}
	return bytes.Repeat([]byte{byte(m.B)}, m.A%4096)
}

func rlpListHeader(l int) []byte {
	if l < 56 {
		return []byte{0xc0 + byte(l)}
	}
	var be []byte
	for x := l; x > 0; x >>= 8 {
		be = append([]byte{byte(x)}, be...)
	}
	return append([]byte{0xf7 + byte(len(be))}, be...)
}

// stacksOf returns the stacks of the goroutines that have a frame containing marker.
func stacksOf(marker string) string {
	buf := make([]byte, 1<<20)
	dump := string(buf[:runtime.Stack(buf, true)])
	out := ""
	for _, g := range strings.Split(dump, "\n\n") {
		if strings.Contains(g, marker) {
			lines := strings.Split(g, "\n")
			if len(lines) > 14 {
				lines = lines[:14]
			}
			out += strings.Join(lines, " | ") + " || "
		}
	}
	return out
}
