package netsim

import (
	"io"
	"net"
	"os"
	"sync"
	"time"
)

// bufPipe is one direction of an in-memory connection with an unbounded
// buffer: writers never block (so a writer that holds one of the node's
// mutexes can never be parked), readers block on a channel (a durable block
// under synctest) until data, close or their deadline on the fake clock.
type bufPipe struct {
	mu     sync.Mutex
	buf    []byte
	closed bool
	notify chan struct{}
}

func newBufPipe() *bufPipe { return &bufPipe{notify: make(chan struct{}, 1)} }

func (p *bufPipe) wake() {
	select {
	case p.notify <- struct{}{}:
	default:
	}
}

type bufConn struct {
	r, w *bufPipe
	dmu  sync.Mutex
	rdl  time.Time
	name string
}

// connPair returns the two ends of an in-memory connection.
func connPair() (*bufConn, *bufConn) {
	ab, ba := newBufPipe(), newBufPipe()
	return &bufConn{r: ba, w: ab, name: "a"}, &bufConn{r: ab, w: ba, name: "b"}
}

func (c *bufConn) Read(b []byte) (int, error) {
	for {
		c.r.mu.Lock()
		if len(c.r.buf) > 0 {
			n := copy(b, c.r.buf)
			c.r.buf = c.r.buf[n:]
			if len(c.r.buf) > 0 {
				c.r.wake()
			}
			c.r.mu.Unlock()
			return n, nil
		}
		closed := c.r.closed
		c.r.mu.Unlock()
		if closed {
			return 0, io.EOF
		}
		c.dmu.Lock()
		dl := c.rdl
		c.dmu.Unlock()
		if dl.IsZero() {
			<-c.r.notify
			continue
		}
		d := time.Until(dl)
		if d <= 0 {
			return 0, os.ErrDeadlineExceeded
		}
		t := time.NewTimer(d)
		select {
		case <-c.r.notify:
			t.Stop()
		case <-t.C:
			return 0, os.ErrDeadlineExceeded
		}
	}
}

func (c *bufConn) Write(b []byte) (int, error) {
	c.w.mu.Lock()
	if c.w.closed {
		c.w.mu.Unlock()
		return 0, io.ErrClosedPipe
	}
	c.w.buf = append(c.w.buf, b...)
	c.w.mu.Unlock()
	c.w.wake()
	return len(b), nil
}

func (c *bufConn) Close() error {
	for _, p := range []*bufPipe{c.r, c.w} {
		p.mu.Lock()
		p.closed = true
		p.mu.Unlock()
		p.wake()
	}
	return nil
}

type simAddr string

func (a simAddr) Network() string { return "sim" }
func (a simAddr) String() string  { return string(a) }

func (c *bufConn) LocalAddr() net.Addr  { return &net.TCPAddr{IP: net.IP{10, 0, 0, 1}, Port: 30303} }
func (c *bufConn) RemoteAddr() net.Addr { return &net.TCPAddr{IP: net.IP{10, 0, 0, 2}, Port: 30303} }
func (c *bufConn) SetDeadline(t time.Time) error {
	return c.SetReadDeadline(t)
}
func (c *bufConn) SetReadDeadline(t time.Time) error {
	c.dmu.Lock()
	c.rdl = t
	c.dmu.Unlock()
	c.r.wake() // re-evaluate a blocked read against the new deadline
	return nil
}
func (c *bufConn) SetWriteDeadline(time.Time) error { return nil }
