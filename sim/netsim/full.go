package netsim

import (
	"context"
	"encoding/json"
	"fmt"
	"math/big"
	mrand "math/rand"
	"net"
	"os"
	"runtime"
	"sort"
	"testing"
	"testing/cryptotest"
	"time"

	"gitlab.com/aquachain/aquachain/aqua"
	"gitlab.com/aquachain/aquachain/aqua/downloader"
	"gitlab.com/aquachain/aquachain/common"
	"gitlab.com/aquachain/aquachain/core"
	"gitlab.com/aquachain/aquachain/core/types"
	"gitlab.com/aquachain/aquachain/p2p"
	"gitlab.com/aquachain/aquachain/p2p/discover"
	"verifsim/chainsim"
	"verifsim/kernel"
)

// ---- full-stack mode: whole nodes joined by the real network stack -----------------------------
//
// Every node is the real BlockChain (on a simulated disk) + TxPool + miner +
// aqua.ProtocolManager (downloader, fetcher, broadcast loops) + p2p.Server.
// Nodes are joined by in-memory connections through the real RLPx transport.
// The simulator owns: who finds a block when (gated Seal), which links exist
// (partitions, heals), the clock, and what clients submit where.

type FullStep struct {
	Kind   string             `json:"k"` // mine | tx | partition | heal | advance
	Node   int                `json:"n,omitempty"`
	Wait   int                `json:"wait,omitempty"`
	Groups [][]int            `json:"groups,omitempty"` // partition: connected components
	Tx     *chainsim.TxRecipe `json:"tx,omitempty"`
}

type FullPlan struct {
	Recipe  chainsim.Recipe `json:"universe"`
	Nodes   int             `json:"nodes"`
	Miners  []int           `json:"miners"`
	Steps   []FullStep      `json:"steps"`
	KeySeed uint64          `json:"key_seed"`
	Settle  int             `json:"settle"` // simulated seconds granted for convergence after the last heal
	// Profiles: per node, archive or pruning with its flush knobs (empty = archive)
	Profiles []chainsim.NodeCfg `json:"profiles,omitempty"`
}

func DecodeFullPlan(raw json.RawMessage) (any, error) {
	p := &FullPlan{}
	return p, json.Unmarshal(raw, p)
}
func HashFullPlan(p any) uint64 { b, _ := json.Marshal(p); return kernel.HashBytes(b) }

func GenFullPlan(rng *kernel.RNG, env *kernel.Env, k int) any {
	o := chainsim.GenOpts{MinMain: 1, MaxMain: 1, MaxForks: 0, MaxTx: 0, ForkModes: []string{"nohf", "allhf", "staged", "random"}}
	p := &FullPlan{Recipe: chainsim.GenRecipe(rng, o), Nodes: rng.Range(2, 4), KeySeed: rng.Uint64(), Settle: 180}
	p.Recipe.Blocks = nil
	for i := 0; i < p.Nodes; i++ {
		p.Profiles = append(p.Profiles, chainsim.GenNodeCfg(rng))
	}
	for i := 0; i < p.Nodes; i++ {
		if i == 0 || rng.Intn(2) == 0 {
			p.Miners = append(p.Miners, i)
		}
	}
	n := rng.Range(6, 30)
	parted := false
	// per miner a pace: blocks found quickly carry more difficulty each, so a partition
	// leaves a shorter-but-heavier and a longer-but-lighter branch behind
	pace := map[int][]int{}
	for _, m := range p.Miners {
		pace[m] = [][]int{{2, 3, 5}, {1000, 5000}, {2, 5, 100, 240, 1000}}[rng.Intn(3)]
	}
	if len(p.Miners) >= 2 && rng.Intn(3) == 0 {
		// contrast scenario: two miners on opposite sides of a partition, one finding many
		// blocks far apart (difficulty falls), the other fewer blocks in quick succession
		slow, fast := p.Miners[0], p.Miners[1]
		var g1, g2 []int
		for i := 0; i < p.Nodes; i++ {
			if i == fast || (i != slow && rng.Intn(2) == 0) {
				g2 = append(g2, i)
			} else {
				g1 = append(g1, i)
			}
		}
		p.Steps = append(p.Steps, FullStep{Kind: "mine", Node: slow, Wait: 5}, FullStep{Kind: "partition", Groups: [][]int{g1, g2}})
		ns := rng.Range(6, 16)
		short := rng.Range(1, 2)
		for i := 0; i < ns; i++ {
			p.Steps = append(p.Steps, FullStep{Kind: "mine", Node: slow, Wait: []int{1000, 5000}[rng.Intn(2)]})
			if i < ns-short {
				p.Steps = append(p.Steps, FullStep{Kind: "mine", Node: fast, Wait: []int{1, 2, 5}[rng.Intn(3)]})
			}
		}
		p.Steps = append(p.Steps, FullStep{Kind: "heal"}, FullStep{Kind: "advance", Wait: 15})
		n = rng.Range(0, 8)
	}
	for i := 0; i < n; i++ {
		switch r := rng.Intn(12); {
		case r < 5:
			m := p.Miners[rng.Intn(len(p.Miners))]
			p.Steps = append(p.Steps, FullStep{Kind: "mine", Node: m, Wait: pace[m][rng.Intn(len(pace[m]))]})
		case r < 8:
			txs := chainsim.GenTxs(rng, p.Recipe.Accounts, 1)
			if len(txs) == 1 {
				tx := txs[0]
				p.Steps = append(p.Steps, FullStep{Kind: "tx", Node: rng.Intn(p.Nodes), Tx: &tx})
			}
		case r < 9 && !parted && p.Nodes >= 2:
			// split the nodes into two components
			perm := rng.Perm(p.Nodes)
			cut := rng.Range(1, p.Nodes-1)
			g1, g2 := append([]int{}, perm[:cut]...), append([]int{}, perm[cut:]...)
			sort.Ints(g1)
			sort.Ints(g2)
			p.Steps = append(p.Steps, FullStep{Kind: "partition", Groups: [][]int{g1, g2}})
			parted = true
		case r < 10 && parted:
			p.Steps = append(p.Steps, FullStep{Kind: "heal"})
			parted = false
		default:
			p.Steps = append(p.Steps, FullStep{Kind: "advance", Wait: []int{1, 5, 15, 40}[rng.Intn(4)]})
		}
	}
	return p
}

func ShrinkFullPlan(pa any) []any {
	p := pa.(*FullPlan)
	var out []any
	for size := len(p.Steps) / 2; size >= 1; size /= 2 {
		for at := len(p.Steps) - size; at >= 0; at -= size {
			q := *p
			q.Steps = append(append([]FullStep{}, p.Steps[:at]...), p.Steps[at+size:]...)
			out = append(out, &q)
		}
	}
	return out
}

type fullNode struct {
	i    int
	rig  *chainsim.MinerRig
	pm   *aqua.ProtocolManager
	srv  *p2p.Server
	id   discover.NodeID
	mine bool
}

type fullLink struct{ a, b *bufConn }

func ExecFull(t *testing.T, pa any, col *kernel.Collector) []kernel.Violation {
	p := pa.(*FullPlan)
	var vs []kernel.Violation
	cryptotest.SetGlobalRandom(t, HashFullPlan(p))
	mrand.Seed(int64(HashFullPlan(p) >> 1))
	chainsim.Bubble(t, func() { vs = execFull(p, col) })
	return vs
}

func execFull(p *FullPlan, col *kernel.Collector) []kernel.Violation {
	// whole nodes race here for real: one P, so that the interleaving between quiescence points
	// is the runtime's deterministic run queue and not the machine's parallelism
	defer runtime.GOMAXPROCS(runtime.GOMAXPROCS(1))
	simStart := time.Now() // the bubble's clock: elapsed = simulated time
	defer func() { col.AddSim(time.Since(simStart)) }()
	var vs []kernel.Violation
	add := func(class string, step int, f string, a ...any) {
		vs = append(vs, kernel.Violation{Class: class, Step: step, Detail: fmt.Sprintf(f, a...)})
	}
	chainsim.ResetCrit()
	p2p.NoCountdown = true
	u, err := chainsim.Build(&p.Recipe)
	if err != nil {
		col.Inc("universe_build_failed")
		return nil
	}
	defer func() { u.Close(); time.Sleep(3 * time.Second) }()
	isMiner := map[int]bool{}
	for _, m := range p.Miners {
		isMiner[m] = true
	}
	var nodes []*fullNode
	for i := 0; i < p.Nodes; i++ {
		cfg := chainsim.NodeCfg{Archive: true, Scale: 1}
		if i < len(p.Profiles) {
			cfg = p.Profiles[i]
		}
		n, err := chainsim.NewNode(u, cfg)
		if err != nil {
			add("open-error", -1, "%v", err)
			return vs
		}
		rig := chainsim.NewMinerRig(u, n)
		pm, err := aqua.NewProtocolManager(u.Cfg, downloader.FullSync, 1337, rig.Mux, rig.Pool, u.Engine, n.BC, n.Disk)
		if err != nil {
			return []kernel.Violation{{Class: "harness-protocol-manager", Detail: err.Error()}}
		}
		key := keyFrom(p.KeySeed, 10+i)
		srv := &p2p.Server{Config: &p2p.Config{PrivateKey: key, MaxPeers: 10, NoDiscovery: true, NoDial: true, Name: fmt.Sprintf("node%d", i), ChainId: uint64(u.Cfg.ChainId.Uint64()), Protocols: pm.SubProtocols}}
		if err := srv.Start(context.Background()); err != nil {
			return []kernel.Violation{{Class: "harness-server-start", Detail: err.Error()}}
		}
		pm.Start(10)
		fn := &fullNode{i: i, rig: rig, pm: pm, srv: srv, id: discover.PubkeyID(key.PubKey().ToECDSA()), mine: isMiner[i]}
		nodes = append(nodes, fn)
	}
	links := map[[2]int]*fullLink{}
	connect := func(i, j int) {
		if i > j {
			i, j = j, i
		}
		if links[[2]int{i, j}] != nil {
			return
		}
		a, b := connPair()
		links[[2]int{i, j}] = &fullLink{a, b}
		nj, _ := discover.NewNode(nodes[j].id, net.IP{10, 0, 0, byte(j + 1)}, 30303, 30303)
		go nodes[i].srv.SetupConn(a, 1 /* dynDialedConn */, nj)
		go nodes[j].srv.SetupConn(b, 4 /* inboundConn */, nil)
	}
	cut := func(i, j int) {
		if i > j {
			i, j = j, i
		}
		if l := links[[2]int{i, j}]; l != nil {
			l.a.Close()
			l.b.Close()
			delete(links, [2]int{i, j})
		}
	}
	connectAll := func() {
		for i := 0; i < p.Nodes; i++ {
			for j := i + 1; j < p.Nodes; j++ {
				connect(i, j)
			}
		}
	}
	defer func() {
		for _, n := range nodes {
			if n.mine {
				n.rig.Ahead()
				n.rig.Miner.Stop()
			}
		}
		time.Sleep(2 * time.Second)
		for _, n := range nodes {
			n.pm.Stop()
			n.srv.Stop()
			n.rig.Pool.Stop()
		}
		time.Sleep(5 * time.Second)
	}()
	connectAll()
	time.Sleep(3 * time.Second)
	for _, n := range nodes {
		if n.mine {
			n.rig.Ahead()
			n.rig.Miner.Start(u.Addrs[n.i%len(u.Addrs)])
		}
	}
	time.Sleep(time.Second)
	// every block anyone mined, with its total difficulty (sum of header difficulties)
	type known struct {
		td     *big.Int
		parent common.Hash
	}
	all := map[common.Hash]known{u.Blocks[0].Hash(): {td: new(big.Int).Set(u.Blocks[0].Difficulty())}}
	nonces := map[[2]int]uint64{}
	noteHead := func(n *fullNode) {
		// walk back from the head until a known block: every block a node makes
		// canonical enters the global set with the reference total difficulty
		var path []*types.Block
		b := n.rig.Node.BC.CurrentBlock()
		for {
			if _, ok := all[b.Hash()]; ok {
				break
			}
			path = append(path, b)
			pb := n.rig.Node.BC.GetBlock(b.ParentHash(), b.NumberU64()-1)
			if pb == nil {
				return
			}
			b = pb
		}
		for i := len(path) - 1; i >= 0; i-- {
			blk := path[i]
			all[blk.Hash()] = known{td: new(big.Int).Add(all[blk.ParentHash()].td, blk.Difficulty()), parent: blk.ParentHash()}
		}
	}
	lastNum := map[int]uint64{}
	lastTD := map[int]*big.Int{}
	// safety, evaluated after every step on every node
	checkNodes := func(step int) bool {
		for _, n := range nodes {
			noteHead(n)
		}
		for _, n := range nodes {
			h := n.rig.Node.BC.CurrentBlock()
			if k, ok := all[h.Hash()]; ok {
				if prev := lastTD[n.i]; prev != nil {
					if k.td.Cmp(prev) < 0 {
						add("head-td-decreased", step, "node %d: head total difficulty went from %v to %v", n.i, prev, k.td)
						return false
					}
					if h.NumberU64() < lastNum[n.i] && k.td.Cmp(prev) > 0 {
						col.Inc("probe_reorg_to_shorter_heavier")
					}
				}
				lastTD[n.i], lastNum[n.i] = k.td, h.NumberU64()
			}
		}
		for _, n := range nodes {
			bc := n.rig.Node.BC
			head := bc.CurrentBlock()
			// C03: the number index is the ancestry of the head
			b := head
			for k := 0; k < 12 && b.NumberU64() > 0; k++ {
				if got := core.GetCanonicalHash(n.rig.Node.Disk, b.NumberU64()); got != b.Hash() {
					add("canonical-index-wrong-below-head", step, "node %d: height %d maps to %x, the head's ancestor there is %x", n.i, b.NumberU64(), got[:4], b.Hash().Bytes()[:4])
					return false
				}
				b = bc.GetBlock(b.ParentHash(), b.NumberU64()-1)
				if b == nil {
					add("canonical-block-not-retrievable", step, "node %d: an ancestor of the head is missing", n.i)
					return false
				}
			}
			if got := core.GetCanonicalHash(n.rig.Node.Disk, head.NumberU64()+1); got != (common.Hash{}) {
				add("stale-canonical-above-head", step, "node %d: head #%d but height %d is still mapped", n.i, head.NumberU64(), head.NumberU64()+1)
				return false
			}
			// C02: the head is a heaviest block among the fully validated blocks this node holds,
			// and stored total difficulties are parent + own
			hk, ok := all[head.Hash()]
			if !ok {
				continue
			}
			if td := bc.GetTd(head.Hash(), head.NumberU64()); td == nil || td.Cmp(hk.td) != 0 {
				add("stored-td-wrong", step, "node %d: GetTd(head #%d) = %v, sum of header difficulties %v", n.i, head.NumberU64(), td, hk.td)
				return false
			}
			hashes := make([]common.Hash, 0, len(all))
			for h := range all {
				hashes = append(hashes, h)
			}
			sort.Slice(hashes, func(a, b int) bool { return bytesLess(hashes[a][:], hashes[b][:]) })
			for _, h := range hashes {
				k := all[h]
				if k.td.Cmp(hk.td) <= 0 {
					continue
				}
				if blk := bc.GetBlockByHash(h); blk != nil && bc.HasBlockAndState(h, blk.NumberU64()) {
					add("head-not-heaviest", step, "node %d: head #%d has td %v, but it holds the fully validated block #%d with td %v", n.i, head.NumberU64(), hk.td, blk.NumberU64(), k.td)
					return false
				}
			}
			col.Inc("node_checks")
		}
		return true
	}
	parted := false
	for i, st := range p.Steps {
		col.Tick()
		switch st.Kind {
		case "mine":
			n := nodes[st.Node%len(nodes)]
			if !n.mine {
				continue
			}
			time.Sleep(time.Duration(st.Wait) * time.Second)
			n.rig.Ahead()
			if st.Wait >= 20 {
				// the block found now was assembled now, not when the previous head arrived
				n.rig.Recommit(u.Addrs[n.i%len(u.Addrs)])
			}
			before := n.rig.Node.BC.CurrentBlock().Hash()
			if !n.rig.Found() {
				col.Inc("probe_no_sealer_waiting")
				continue
			}
			for w := 0; w < 100 && n.rig.Node.BC.CurrentBlock().Hash() == before; w++ {
				time.Sleep(50 * time.Millisecond)
			}
			if n.rig.Node.BC.CurrentBlock().Hash() != before {
				col.Inc("blocks_mined")
				noteHead(n)
			} else {
				col.Inc("probe_seal_result_discarded")
			}
			time.Sleep(300 * time.Millisecond)
		case "tx":
			n := nodes[st.Node%len(nodes)]
			from := st.Tx.From % len(u.Keys)
			k := [2]int{n.i, from}
			if _, ok := nonces[k]; !ok {
				nonces[k] = n.rig.Pool.State().GetNonce(u.Addrs[from])
			}
			tx := u.MakeTx(st.Tx, nonces[k], new(big.Int).Add(n.rig.Node.BC.CurrentBlock().Number(), common.Big1))
			if err := n.rig.Pool.AddLocal(tx); err == nil {
				nonces[k]++
				col.Inc("pool_transactions_admitted")
			} else {
				delete(nonces, k)
			}
			time.Sleep(100 * time.Millisecond)
		case "partition":
			comp := map[int]int{}
			for g, members := range st.Groups {
				for _, m := range members {
					comp[m] = g
				}
			}
			for a := 0; a < p.Nodes; a++ {
				for b := a + 1; b < p.Nodes; b++ {
					if comp[a] != comp[b] {
						cut(a, b)
					}
				}
			}
			parted = true
			col.Inc("fault_partition")
			time.Sleep(time.Second)
		case "heal":
			connectAll()
			parted = false
			col.Inc("fault_heal")
			time.Sleep(2 * time.Second)
		case "advance":
			time.Sleep(time.Duration(st.Wait) * time.Second)
		}
		if os.Getenv("VERIF_DEBUG") != "" {
			line := fmt.Sprintf("step %d %s n%d w%d:", i, st.Kind, st.Node, st.Wait)
			for _, n := range nodes {
				h := n.rig.Node.BC.CurrentBlock()
				line += fmt.Sprintf(" [n%d #%d d%v t%v]", n.i, h.NumberU64(), h.Difficulty(), h.Time())
			}
			fmt.Fprintln(os.Stderr, line)
		}
		if !checkNodes(i) {
			return vs
		}
	}
	// ---- faults stop: heal; the heaviest miner finds a few more blocks (a node
	// that missed an announcement learns of the heavier chain with the next one)
	if parted {
		connectAll()
		col.Inc("fault_heal")
		time.Sleep(3 * time.Second)
	}
	tdOf := func(n *fullNode) *big.Int {
		noteHead(n)
		if k, ok := all[n.rig.Node.BC.CurrentBlock().Hash()]; ok {
			return k.td
		}
		return new(big.Int)
	}
	for round := 0; round < 3; round++ {
		var best *fullNode
		for _, n := range nodes {
			if n.mine && (best == nil || tdOf(n).Cmp(tdOf(best)) > 0) {
				best = n
			}
		}
		if best == nil {
			break
		}
		time.Sleep(3 * time.Second)
		best.rig.Ahead()
		before := best.rig.Node.BC.CurrentBlock().Hash()
		if best.rig.Found() {
			for w := 0; w < 100 && best.rig.Node.BC.CurrentBlock().Hash() == before; w++ {
				time.Sleep(50 * time.Millisecond)
			}
			col.Inc("blocks_mined")
		}
		time.Sleep(10 * time.Second)
		if !checkNodes(len(p.Steps)) {
			return vs
		}
	}
	max := new(big.Int)
	for _, n := range nodes {
		if td := tdOf(n); td.Cmp(max) > 0 {
			max = td
		}
	}
	converged := func() bool {
		for _, n := range nodes {
			if tdOf(n).Cmp(max) != 0 {
				return false
			}
		}
		return true
	}
	took := -1
	for s := 0; s <= p.Settle; s++ {
		if converged() {
			took = s
			break
		}
		time.Sleep(time.Second)
		col.Tick()
	}
	if !checkNodes(len(p.Steps)) {
		return vs
	}
	if took >= 0 {
		col.Inc("probe_all_nodes_converged")
		col.Add("convergence_seconds", int64(took))
	} else {
		// not a violation of any listed property: network-level liveness is only measured
		col.Inc("probe_not_converged_within_settle_time")
	}
	if len(all) > 1 {
		col.Inc("probe_network_with_blocks")
	}
	// same head => same state everywhere (independent traversal)
	heads := map[common.Hash]string{}
	for _, n := range nodes {
		h := n.rig.Node.BC.CurrentBlock()
		d, err := chainsim.NodeStateDigest(n.rig.Node, h.Root())
		if err != nil {
			add("imported-state-incomplete", len(p.Steps), "node %d (archive=%v): state of its head #%d: %v", n.i, n.rig.Node.Cfg.Archive, h.NumberU64(), err)
			return vs
		}
		if !n.rig.Node.Cfg.Archive {
			col.Inc("probe_pruning_node_head_state_complete")
		}
		if prev, ok := heads[h.Hash()]; ok && prev != d {
			add("post-state-differs-between-histories", len(p.Steps), "two nodes with the same head #%d hold different states", h.NumberU64())
			return vs
		}
		heads[h.Hash()] = d
	}
	kernel.SetNonTrivial()
	return vs
}

func bytesLess(a, b []byte) bool {
	for i := range a {
		if a[i] != b[i] {
			return a[i] < b[i]
		}
	}
	return false
}
