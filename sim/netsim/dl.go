package netsim

import (
	"encoding/json"
	"fmt"
	"math/big"
	mrand "math/rand"
	"runtime"
	"sync"
	"testing"
	"time"

	"gitlab.com/aquachain/aquachain/aqua/downloader"
	"gitlab.com/aquachain/aquachain/aqua/event"
	"gitlab.com/aquachain/aquachain/common"
	"gitlab.com/aquachain/aquachain/core/types"
	"verifsim/chainsim"
	"verifsim/kernel"
)

// ---- C17 (e): the real downloader synchronising a real chain from a simulated peer that
//      answers some header and body requests with well-formed but wrong batches ----------------

// DLLie alters the Req-th answer of its kind the hostile peer gives.
type DLLie struct {
	On   string `json:"on"`   // headers | bodies
	Req  int    `json:"req"`  // index of the request (per kind) the lie applies to
	Kind string `json:"kind"` // headers: shift-full | shift | short | empty | gap | dup | reverse | unlinked | future-number ; bodies: drop | swap | extra | empty
	Arg  int    `json:"arg"`
}

type DLPlan struct {
	DL        bool             `json:"downloader_plan"`
	Recipe    chainsim.Recipe  `json:"universe"`
	Node      chainsim.NodeCfg `json:"node"`
	Have      int              `json:"have"` // blocks the victim holds before the sync
	Lies      []DLLie          `json:"lies"`
	LatencyMs int              `json:"latency_ms"`
}

func DecodeDLPlan(raw json.RawMessage) (any, error) {
	p := &DLPlan{}
	return p, json.Unmarshal(raw, p)
}
func HashDLPlan(p any) uint64 { b, _ := json.Marshal(p); return kernel.HashBytes(b) }

var dlHeaderLies = []string{"shift-full", "shift-full", "shift", "short", "empty", "gap", "dup", "reverse", "unlinked", "future-number"}
var dlBodyLies = []string{"drop", "swap", "extra", "empty"}

func GenDLPlan(rng *kernel.RNG, env *kernel.Env, k int) any {
	o := chainsim.GenOpts{MinMain: 1, MaxMain: 1, MaxForks: 0, MaxTx: 0, ForkModes: []string{"nohf", "allhf", "staged"}}
	p := &DLPlan{DL: true, Recipe: chainsim.GenRecipe(rng, o), Node: chainsim.NodeCfg{Archive: rng.Bool(0.5), Scale: 1}, LatencyMs: []int{1, 20, 300}[rng.Intn(3)]}
	p.Recipe.Blocks = nil
	// long enough for the skeleton phase of the header download (a skeleton needs 192 headers per gap)
	n := []int{200, 260, 400, 600}[rng.Intn(4)]
	for i := 0; i < n; i++ {
		b := chainsim.BlockRecipe{Parent: i, Gap: []int64{240, 240, 100, 1000}[rng.Intn(4)], Coinbase: rng.Intn(p.Recipe.Accounts)}
		if rng.Bool(0.1) {
			b.Txs = chainsim.GenTxs(rng, p.Recipe.Accounts, 2)
			for j := range b.Txs {
				b.Txs[j].Kind = chainsim.TxTransfer
			}
		}
		p.Recipe.Blocks = append(p.Recipe.Blocks, b)
	}
	p.Have = []int{0, 0, 3, 50}[rng.Intn(4)]
	for i := rng.Range(1, 3); i > 0; i-- {
		if rng.Bool(0.75) {
			p.Lies = append(p.Lies, DLLie{On: "headers", Req: rng.Intn(6), Kind: dlHeaderLies[rng.Intn(len(dlHeaderLies))], Arg: rng.Range(1, 5)})
		} else {
			p.Lies = append(p.Lies, DLLie{On: "bodies", Req: rng.Intn(3), Kind: dlBodyLies[rng.Intn(len(dlBodyLies))], Arg: rng.Range(0, 5)})
		}
	}
	return p
}

func ShrinkDLPlan(pa any) []any {
	p := pa.(*DLPlan)
	var out []any
	for i := range p.Lies {
		q := *p
		q.Lies = append(append([]DLLie{}, p.Lies[:i]...), p.Lies[i+1:]...)
		out = append(out, &q)
	}
	if n := len(p.Recipe.Blocks); n > 200 {
		q := *p
		q.Recipe.Blocks = p.Recipe.Blocks[:200]
		out = append(out, &q)
	}
	if p.Have > 0 {
		q := *p
		q.Have = 0
		out = append(out, &q)
	}
	return out
}

// dlPeer serves the oracle node's chain to one downloader, as a peer's protocol handler would:
// every request is answered by a delivery on another goroutine after the link's latency.
type dlPeer struct {
	id      string
	u       *chainsim.Universe
	d       *downloader.Downloader
	lat     time.Duration
	lies    []DLLie
	col     *kernel.Collector
	mu      chan struct{}
	hdrReqs int
	bodReqs int
	lied    int
}

func (p *dlPeer) lock()   { <-p.mu }
func (p *dlPeer) unlock() { p.mu <- struct{}{} }

func (p *dlPeer) Head() (common.Hash, *big.Int) {
	h := p.u.O.CurrentBlock()
	return h.Hash(), p.u.O.GetTd(h.Hash(), h.NumberU64())
}

func (p *dlPeer) RequestHeadersByHash(h common.Hash, amount, skip int, reverse bool) error {
	origin := p.u.O.GetHeaderByHash(h)
	if origin == nil {
		go p.deliverHeaders(nil)
		return nil
	}
	return p.RequestHeadersByNumber(origin.Number.Uint64(), amount, skip, reverse)
}

func (p *dlPeer) RequestHeadersByNumber(origin uint64, amount, skip int, reverse bool) error {
	p.lock()
	req := p.hdrReqs
	p.hdrReqs++
	var lie *DLLie
	for i := range p.lies {
		if p.lies[i].On == "headers" && p.lies[i].Req == req {
			lie = &p.lies[i]
		}
	}
	p.unlock()
	start := int64(origin)
	if lie != nil && (lie.Kind == "shift-full" || lie.Kind == "shift") {
		// the same number of headers, starting Arg later (or earlier)
		if lie.Arg%2 == 0 {
			start -= int64(lie.Arg)
		} else {
			start += int64(lie.Arg)
		}
		if start < 0 {
			start = 0
		}
	}
	var hs []*types.Header
	for i, num := 0, start; i < amount && num >= 0; i++ {
		h := p.u.O.GetHeaderByNumber(uint64(num))
		if h == nil {
			break
		}
		w := types.CopyHeader(h)
		w.Version = 0 // as decoded from the wire: the version is not part of the encoding
		hs = append(hs, w)
		if reverse {
			num -= int64(skip) + 1
		} else {
			num += int64(skip) + 1
		}
	}
	if lie != nil && len(hs) > 0 {
		switch lie.Kind {
		case "shift":
			if len(hs) > 1 {
				hs = hs[:len(hs)-1]
			}
		case "short":
			hs = hs[:len(hs)/2]
		case "empty":
			hs = nil
		case "gap":
			if len(hs) > 3 {
				hs = append(append([]*types.Header{}, hs[:len(hs)/2]...), hs[len(hs)/2+1:]...)
			}
		case "dup":
			if len(hs) > 2 {
				hs = append(append([]*types.Header{}, hs[:len(hs)/2]...), hs[len(hs)/2-1:]...)
				if len(hs) > amount {
					hs = hs[:amount]
				}
			}
		case "reverse":
			for i, j := 0, len(hs)-1; i < j; i, j = i+1, j-1 {
				hs[i], hs[j] = hs[j], hs[i]
			}
		case "unlinked":
			hs[len(hs)/2].ParentHash[3] ^= 1
		case "future-number":
			hs[len(hs)-1].Number = new(big.Int).Add(hs[len(hs)-1].Number, big.NewInt(int64(lie.Arg)))
		}
		p.lock()
		p.lied++
		p.unlock()
		p.col.Inc("fault_sync_peer_lies_about_headers_" + lie.Kind)
		if lie.Kind == "shift-full" && len(hs) == downloader.MaxHeaderFetch {
			p.col.Inc("probe_full_header_batch_starting_at_the_wrong_number")
		}
	}
	go p.deliverHeaders(hs)
	return nil
}

func (p *dlPeer) deliverHeaders(hs []*types.Header) {
	time.Sleep(p.lat)
	// no recover here: the real node runs this on the peer's protocol goroutine, where a panic
	// ends the process (the driver reports it as a process-crash violation)
	p.d.DeliverHeaders(p.id, hs)
}

func (p *dlPeer) RequestBodies(hashes []common.Hash) error {
	p.lock()
	req := p.bodReqs
	p.bodReqs++
	var lie *DLLie
	for i := range p.lies {
		if p.lies[i].On == "bodies" && p.lies[i].Req == req {
			lie = &p.lies[i]
		}
	}
	p.unlock()
	var txs [][]*types.Transaction
	var uncles [][]*types.Header
	for _, h := range hashes {
		b := p.u.O.GetBlockByHash(h)
		if b == nil {
			continue
		}
		txs = append(txs, b.Transactions())
		uncles = append(uncles, b.Uncles())
	}
	if lie != nil && len(txs) > 0 {
		switch lie.Kind {
		case "drop":
			i := lie.Arg % len(txs)
			txs, uncles = append(txs[:i:i], txs[i+1:]...), append(uncles[:i:i], uncles[i+1:]...)
		case "swap":
			if len(txs) > 1 {
				txs[0], txs[len(txs)-1] = txs[len(txs)-1], txs[0]
			}
		case "extra":
			txs, uncles = append(txs, txs[0]), append(uncles, uncles[0])
		case "empty":
			txs, uncles = nil, nil
		}
		p.col.Inc("fault_sync_peer_lies_about_bodies_" + lie.Kind)
	}
	go func() {
		time.Sleep(p.lat)
		p.d.DeliverBodies(p.id, txs, uncles)
	}()
	return nil
}

func (p *dlPeer) RequestReceipts(hashes []common.Hash) error {
	go func() { time.Sleep(p.lat); p.d.DeliverReceipts(p.id, nil) }()
	return nil
}
func (p *dlPeer) RequestNodeData(hashes []common.Hash) error {
	go func() { time.Sleep(p.lat); p.d.DeliverNodeData(p.id, nil) }()
	return nil
}

func ExecDL(t *testing.T, pa any, col *kernel.Collector) []kernel.Violation {
	p := pa.(*DLPlan)
	var vs []kernel.Violation
	mrand.Seed(int64(HashDLPlan(p) >> 1))
	chainsim.Bubble(t, func() { vs = execDL(p, col) })
	return vs
}

func execDL(p *DLPlan, col *kernel.Collector) []kernel.Violation {
	defer runtime.GOMAXPROCS(runtime.GOMAXPROCS(1))
	simStart := time.Now()
	defer func() { col.AddSim(time.Since(simStart)) }()
	chainsim.ResetCrit()
	var vs []kernel.Violation
	u, err := chainsim.Build(&p.Recipe)
	if err != nil {
		col.Inc("universe_build_failed")
		return nil
	}
	defer func() { u.Close(); chainsim.SettleTime(3 * time.Second) }()
	n, err := chainsim.NewNode(u, p.Node)
	if err != nil {
		return []kernel.Violation{{Class: "harness-open", Detail: err.Error()}}
	}
	if p.Have > 0 && p.Have < len(u.Blocks) {
		ids := make([]int, p.Have)
		for i := range ids {
			ids[i] = i + 1
		}
		n.Insert(ids)
	}
	var dmu sync.Mutex
	dropped := map[string]int{}
	var d *downloader.Downloader
	d = downloader.New(downloader.FullSync, n.Disk, new(event.TypeMux), n.BC, nil, func(id string) {
		// what the protocol manager does when the downloader drops a peer
		dmu.Lock()
		dropped[id]++
		dmu.Unlock()
		col.Inc("probe_downloader_dropped_the_peer")
		d.UnregisterPeer(id)
	})
	defer func() {
		d.Terminate()
		time.Sleep(2 * time.Second)
	}()
	mk := func(id string, lies []DLLie) *dlPeer {
		pr := &dlPeer{id: id, u: u, d: d, lat: time.Duration(p.LatencyMs) * time.Millisecond, lies: lies, col: col, mu: make(chan struct{}, 1)}
		pr.mu <- struct{}{}
		return pr
	}
	sync1 := func(pr *dlPeer, bound time.Duration) (error, bool, chan error) {
		if err := d.RegisterPeer(pr.id, 64, pr); err != nil {
			return err, true, nil
		}
		head, td := pr.Head()
		done := make(chan error, 1)
		go func() { done <- d.Synchronise(pr.id, head, td, downloader.FullSync) }()
		select {
		case err := <-done:
			d.UnregisterPeer(pr.id)
			return err, true, nil
		case <-time.After(bound):
			return nil, false, done
		}
	}
	want := u.O.CurrentBlock()
	// 1. the lying peer, alone
	hostile := mk("liar", p.Lies)
	honest := mk("honest", nil)
	serr, returned, pending := sync1(hostile, 30*time.Minute)
	col.Tick()
	if !returned {
		// a sync whose only peer went bad may wait for another peer; it must not stay stuck once
		// an honest one is there (as it would be in a network)
		col.Inc("probe_sync_with_the_lying_peer_alone_stalled")
		if err := d.RegisterPeer(honest.id, 64, honest); err != nil {
			return []kernel.Violation{{Class: "harness-register", Detail: err.Error()}}
		}
		select {
		case serr = <-pending:
		case <-time.After(60 * time.Minute):
			vs = append(vs, kernel.Violation{Class: "sync-stays-stuck-despite-an-honest-peer", Detail: fmt.Sprintf("a synchronisation whose peer lied (%+v) stalled, an honest peer joined, and 60 simulated minutes later Synchronise still has not returned; victim head #%d", p.Lies, n.BC.CurrentBlock().NumberU64())})
			return vs
		}
		d.UnregisterPeer(hostile.id)
		d.UnregisterPeer(honest.id)
	}
	col.Inc("hostile_syncs_finished")
	if hostile.lied > 0 {
		col.Inc("probe_sync_peer_lie_delivered")
		if serr != nil {
			col.Inc("probe_sync_aborted_by_a_lie")
		}
	}
	// whatever the victim imported is a prefix of the honest chain
	if h := n.BC.CurrentBlock(); u.O.GetBlockByNumber(h.NumberU64()) == nil || u.O.GetBlockByNumber(h.NumberU64()).Hash() != h.Hash() {
		vs = append(vs, kernel.Violation{Class: "synced-block-not-on-the-served-chain", Detail: fmt.Sprintf("after the hostile sync the victim's head #%d %x is not the served chain's block at that height", h.NumberU64(), h.Hash().Bytes()[:4])})
		return vs
	}
	time.Sleep(5 * time.Second)
	// 2. an honest peer afterwards: the node still synchronises, to the served head
	for attempt := 0; attempt < 3 && n.BC.CurrentBlock().Hash() != want.Hash(); attempt++ {
		herr, ret, _ := sync1(honest, 60*time.Minute)
		col.Tick()
		if !ret {
			vs = append(vs, kernel.Violation{Class: "sync-never-returns/honest-peer-after-a-lying-one", Detail: fmt.Sprintf("Synchronise with an honest peer has not returned after 60 simulated minutes (earlier lies %+v)", p.Lies)})
			return vs
		}
		_ = herr
		time.Sleep(3 * time.Second)
	}
	if h := n.BC.CurrentBlock(); h.Hash() != want.Hash() {
		vs = append(vs, kernel.Violation{Class: "honest-peer-not-served-after-a-lying-one", Detail: fmt.Sprintf("three synchronisations with an honest peer left the victim at #%d, the served head is #%d (earlier lies %+v)", h.NumberU64(), want.NumberU64(), p.Lies)})
		return vs
	}
	col.Inc("probe_honest_sync_reached_the_served_head")
	col.Add("blocks_synchronised", int64(want.NumberU64()))
	kernel.SetNonTrivial()
	return vs
}
