package netsim

import (
	"bytes"
	"context"
	"fmt"
	"io"
	"net"
	"runtime"
	"sync"
	"time"

	"github.com/golang/snappy"
	"gitlab.com/aquachain/aquachain/p2p"
	"gitlab.com/aquachain/aquachain/p2p/discover"
	"verifsim/kernel"
	"verifsim/refmodel"
)

// ---- C17 (d): a peer that speaks the protocol -------------------------------------------------
//
// The attacker completes (or deliberately spoils one field of) the real RLPx
// encryption handshake with a complete p2p.Server, in either role, sends a
// protocol handshake of its choosing and then correctly framed and MACed
// messages whose content is hostile: compressed payloads announcing more than
// the 24-bit limit, invalid compression, codes outside every protocol, floods
// of base-protocol messages.

type HostileFrame struct {
	Kind string `json:"k"`
	A    int    `json:"a,omitempty"`
}

type PeerPlan struct {
	KeySeed uint64 `json:"key_seed"`
	Role    string `json:"role"` // attacker role: "dial" (victim listens) | "accept" (victim dials)
	// one handshake knob
	Knob string `json:"knob"` // none | pubkey-offcurve | pubkey-zero | pubkey-half | nonce-zero | version-0 | version-big | sig-flip | extra-elems | close-mid | silent-after-enc
	// protocol handshake
	HelloVersion uint64         `json:"hello_version"`
	HelloCaps    string         `json:"hello_caps"` // match | none | many | dup | other-version
	HelloName    int            `json:"hello_name"` // length of the client name
	HelloID      string         `json:"hello_id"`   // own | zero | other
	Frames       []HostileFrame `json:"frames"`
}

const maxUint24 = 1<<24 - 1

func genPeer(rng *kernel.RNG, env *kernel.Env) *PeerPlan {
	p := &PeerPlan{KeySeed: rng.Uint64(), Role: []string{"dial", "accept"}[rng.Intn(2)], Knob: "none", HelloVersion: 5, HelloCaps: "match", HelloName: 8, HelloID: "own"}
	if rng.Intn(3) == 0 {
		p.Knob = []string{"pubkey-offcurve", "pubkey-zero", "pubkey-half", "nonce-zero", "version-0", "version-big", "sig-flip", "extra-elems", "close-mid", "silent-after-enc", "silent-after-enc"}[rng.Intn(11)]
	}
	if rng.Intn(4) == 0 {
		p.HelloVersion = []uint64{0, 3, 4, 6, 1 << 40}[rng.Intn(5)]
	}
	if rng.Intn(4) == 0 {
		p.HelloCaps = []string{"none", "many", "dup", "other-version"}[rng.Intn(4)]
	}
	if rng.Intn(5) == 0 {
		p.HelloName = []int{0, 1000, 1900, 5000}[rng.Intn(4)]
	}
	if rng.Intn(6) == 0 {
		p.HelloID = []string{"zero", "other"}[rng.Intn(2)]
	}
	kinds := []string{"echo-then-garbage", "honest", "honest", "bomb-over", "bomb-at-limit", "bomb-huge-claim", "bad-snappy", "empty", "code-out-of-range", "ping-flood", "pong", "hello-again", "disc-garbage", "honest-big", "boundary", "boundary"}
	for i := rng.Range(1, 8); i > 0; i-- {
		p.Frames = append(p.Frames, HostileFrame{Kind: kinds[rng.Intn(len(kinds))], A: rng.Intn(256)})
	}
	return p
}

// snappyOf returns a valid snappy stream that decodes to n bytes of fill.
func snappyOf(n int, fill byte) []byte {
	return snappy.Encode(nil, bytes.Repeat([]byte{fill}, n))
}

type peerRecv struct {
	code  uint64
	size  uint32
	n     int
	proto string
}

func execPeer(p *PeerPlan, col *kernel.Collector) []kernel.Violation {
	var vs []kernel.Violation
	p2p.NoCountdown = true
	var mu sync.Mutex
	var received []peerRecv
	mkProto := func(name string, length uint64) p2p.Protocol {
		return p2p.Protocol{Name: name, Version: 1, Length: length, Run: func(peer *p2p.Peer, rw p2p.MsgReadWriter) error {
			for {
				msg, err := rw.ReadMsg()
				if err != nil {
					return err
				}
				n, _ := io.Copy(io.Discard, msg.Payload)
				mu.Lock()
				received = append(received, peerRecv{msg.Code, msg.Size, int(n), name})
				mu.Unlock()
				if msg.Code == 5 && name == "sim" {
					// an answering protocol: code 5 is echoed, so that a write of the victim's can be
					// under way when the connection is torn down
					if err := p2p.Send(rw, 5, []uint{uint(n)}); err != nil {
						return err
					}
				}
			}
		}}
	}
	// two sub-protocols: "sim" takes wire codes 16..31, "sin" (sorted after it) 32..35
	proto, proto2 := mkProto("sim", 16), mkProto("sin", 4)
	kV, kA, kH := keyFrom(p.KeySeed, 1), keyFrom(p.KeySeed, 2), keyFrom(p.KeySeed, 3)
	srv := &p2p.Server{Config: &p2p.Config{PrivateKey: kV, MaxPeers: 10, NoDiscovery: true, NoDial: true, Name: "victim", ChainId: 3, Protocols: []p2p.Protocol{proto, proto2}}}
	if err := srv.Start(context.Background()); err != nil {
		return []kernel.Violation{{Class: "harness-server-start", Detail: err.Error()}}
	}
	defer func() {
		srv.Stop()
		time.Sleep(5 * time.Second)
	}()
	victimID := discover.PubkeyID(kV.PubKey().ToECDSA())
	attackerID := discover.PubkeyID(kA.PubKey().ToECDSA())
	rng := kernel.NewRNG(p.KeySeed ^ 0xc17)

	v1, a1 := connPair()
	setupDone := make(chan error, 1)
	if p.Role == "accept" {
		node, _ := discover.NewNode(attackerID, net.IP{10, 0, 0, 9}, 30303, 30303)
		go func() { setupDone <- srv.SetupConn(v1, 1 /* dynDialedConn */, node) }()
	} else {
		go func() { setupDone <- srv.SetupConn(v1, 4 /* inboundConn */, nil) }()
	}
	col.Inc("peer_role_" + p.Role)
	col.Inc("fault_handshake_" + p.Knob)
	// ---- the attacker's side of the encryption handshake
	var ap *p2p.SimPeer
	var herr error
	hsDone := make(chan struct{})
	go func() {
		defer close(hsDone)
		if p.Knob == "close-mid" {
			// half a handshake, then silence and close
			if p.Role == "dial" {
				a1.Write(rng.Bytes(150))
			}
			time.Sleep(2 * time.Second)
			a1.Close()
			herr = fmt.Errorf("closed")
			return
		}
		spoilKey := func(k *[64]byte) {
			switch p.Knob {
			case "pubkey-offcurve":
				copy(k[:], rng.Bytes(64))
			case "pubkey-zero":
				*k = [64]byte{}
			case "pubkey-half":
				k[63] ^= 1 // X kept, Y no longer on the curve
			}
		}
		if p.Role == "dial" {
			ap, herr = p2p.SimDial(a1, kA.ToECDSA(), victimID, func(m *p2p.SimAuthMsg) {
				spoilKey(m.InitiatorPubkey)
				switch p.Knob {
				case "nonce-zero":
					*m.Nonce = [32]byte{}
				case "version-0":
					*m.Version = 0
				case "version-big":
					*m.Version = 1 << 30
				case "sig-flip":
					m.Signature[rng.Intn(65)] ^= 1 << uint(rng.Intn(8))
				case "extra-elems":
					m.ExtraElems = 3
				}
			})
		} else {
			ap, herr = p2p.SimAccept(a1, kA.ToECDSA(), func(m *p2p.SimAuthResp) {
				spoilKey(m.RandomPubkey)
				switch p.Knob {
				case "nonce-zero":
					*m.Nonce = [32]byte{}
				case "version-0":
					*m.Version = 0
				case "version-big":
					*m.Version = 1 << 30
				case "extra-elems":
					m.ExtraElems = 3
				}
			})
		}
	}()
	select {
	case <-hsDone:
	case <-time.After(20 * time.Second):
	}
	sessionUp := false
	var boundarySent []uint64
	if herr == nil && ap != nil && p.Knob == "silent-after-enc" {
		// the encryption handshake is complete; the attacker now says nothing at all. The
		// victim must give the connection up within its handshake timeout.
		col.Inc("probe_attacker_completed_encryption_handshake")
		select {
		case <-setupDone:
			col.Inc("probe_silent_peer_dropped_in_time")
		case <-time.After(25 * time.Second):
			vs = append(vs, kernel.Violation{Class: "rlpx-setup-never-returns", Detail: fmt.Sprintf("the peer completed the encryption handshake (role %s) and then stayed silent: 25 simulated seconds later SetupConn still holds the connection (the handshake timeout is 5 s)", p.Role)})
			ap.Close()
			a1.Close()
			return vs
		}
		ap.Close()
		a1.Close()
		setupDone <- nil
		herr = fmt.Errorf("silent")
	}
	if herr == nil && ap != nil {
		col.Inc("probe_attacker_completed_encryption_handshake")
		// ---- protocol handshake
		hello := p2p.SimHello{Version: p.HelloVersion, Name: string(bytes.Repeat([]byte{'n'}, p.HelloName)), ListenPort: 30303, ID: attackerID}
		switch p.HelloCaps {
		case "match":
			hello.Caps = []p2p.Cap{{Name: "sim", Version: 1}, {Name: "sin", Version: 1}}
		case "many":
			for i := 0; i < 400; i++ {
				hello.Caps = append(hello.Caps, p2p.Cap{Name: fmt.Sprintf("c%02d", i%100), Version: uint(i)})
			}
			hello.Caps = append(hello.Caps, p2p.Cap{Name: "sim", Version: 1})
		case "dup":
			hello.Caps = []p2p.Cap{{Name: "sim", Version: 1}, {Name: "sim", Version: 1}, {Name: "sim", Version: 1}}
		case "other-version":
			hello.Caps = []p2p.Cap{{Name: "sim", Version: 2}}
		}
		switch p.HelloID {
		case "zero":
			hello.ID = discover.NodeID{}
		case "other":
			hello.ID = discover.PubkeyID(kH.PubKey().ToECDSA())
		}
		helloDone := make(chan error, 1)
		go func() { _, err := ap.Hello(hello); helloDone <- err }()
		var helloErr error
		select {
		case helloErr = <-helloDone:
		case <-time.After(20 * time.Second):
			helloErr = fmt.Errorf("timeout")
		}
		time.Sleep(time.Second)
		if helloErr == nil && srv.PeerCount() == 1 {
			sessionUp = true
			col.Inc("probe_hostile_peer_session_established")
		}
		// ---- frames (sent whether or not the victim still listens)
		go func() {
			for {
				if _, _, err := ap.ReadMsg(); err != nil {
					return
				}
			}
		}()
		for _, f := range p.Frames {
			col.Tick()
			col.Inc("fault_frame_" + f.Kind)
			var err error
			// a frame that only *announces* more than the limit must be refused on the announcement:
			// what the victim allocates while handling it is measured
			measured := sessionUp && (f.Kind == "bomb-over" || f.Kind == "bomb-huge-claim")
			var m0 runtime.MemStats
			var bomb []byte
			if measured {
				// (the attacker's own work of preparing the frame is not the victim's)
				if f.Kind == "bomb-over" {
					bomb = snappyOf(maxUint24+1+f.A, 0)
				} else {
					bomb = append([]byte{0xff, 0xff, 0xff, 0xff, 0x0f}, snappyOf(100, 1)[1:]...)
				}
				runtime.GC()
				runtime.ReadMemStats(&m0)
			}
			switch f.Kind {
			case "honest":
				err = ap.WriteMsg(16+uint64(f.A%16), bytes.Repeat([]byte{byte(f.A)}, 10+f.A*8))
			case "echo-then-garbage":
				// a request the victim answers, and right behind it bytes that are no frame: the
				// read side fails while the answer is being written
				if err = ap.WriteMsg(16+5, bytes.Repeat([]byte{7}, 40+f.A)); err == nil {
					_, err = a1.Write(rng.Bytes(96))
				}
			case "honest-big":
				err = ap.WriteMsg(16+uint64(f.A%16), bytes.Repeat([]byte{byte(f.A)}, 1<<20))
			case "bomb-over":
				if bomb == nil {
					bomb = snappyOf(maxUint24+1+f.A, 0)
				}
				err = ap.WriteRaw(16+uint64(f.A%16), bomb)
			case "bomb-at-limit":
				err = ap.WriteRaw(16+uint64(f.A%16), snappyOf(maxUint24-(f.A%2), 0))
			case "bomb-huge-claim":
				// a snappy header announcing 4 GiB - 1 followed by very little
				if bomb == nil {
					bomb = append([]byte{0xff, 0xff, 0xff, 0xff, 0x0f}, snappyOf(100, 1)[1:]...)
				}
				err = ap.WriteRaw(16+uint64(f.A%16), bomb)
			case "bad-snappy":
				err = ap.WriteRaw(16+uint64(f.A%16), rng.Bytes(1+f.A))
			case "empty":
				err = ap.WriteRaw(16+uint64(f.A%16), nil)
			case "boundary":
				// the codes around the seams between the base protocol, "sim" and "sin" and past the end
				err = ap.WriteMsg([]uint64{15, 16, 31, 32, 35, 36, 37}[f.A%7], []byte{0xc0})
				boundarySent = append(boundarySent, []uint64{15, 16, 31, 32, 35, 36, 37}[f.A%7])
			case "code-out-of-range":
				err = ap.WriteMsg(32+uint64(f.A)*1_000_000, []byte{0xc0})
			case "ping-flood":
				for i := 0; i < 50+f.A && err == nil; i++ {
					err = ap.WriteMsg(2, []byte{0xc0})
				}
			case "pong":
				err = ap.WriteMsg(3, []byte{0xc0})
			case "hello-again":
				err = ap.WriteMsg(0, refmodel.RlpList(rlpUint(5), refmodel.RlpBytes([]byte("again")), refmodel.RlpList(), rlpUint(0), refmodel.RlpBytes(attackerID[:])))
			case "disc-garbage":
				err = ap.WriteMsg(1, rng.Bytes(1+f.A%40))
			}
			if err != nil {
				break
			}
			time.Sleep(200 * time.Millisecond)
			if measured {
				var m1 runtime.MemStats
				runtime.ReadMemStats(&m1)
				col.Inc("oversize_claims_allocation_measured")
				if d := m1.TotalAlloc - m0.TotalAlloc; d > 8<<20 {
					vs = append(vs, kernel.Violation{Class: "rlpx-oversize-claim-allocated", Detail: fmt.Sprintf("a correctly MACed frame of a few bytes announcing more than the %d-byte limit (%s) made the node allocate %d bytes while handling it", maxUint24, f.Kind, d)})
					return vs
				}
			}
		}
	} else {
		col.Inc("probe_attacker_handshake_refused")
	}
	// let every timeout pass (handshake 5 s, frame read 30 s, ping 15 s)
	for i := 0; i < 80; i++ {
		time.Sleep(500 * time.Millisecond)
		col.Tick()
	}
	col.AddSim(60 * time.Second)
	if ap != nil {
		ap.Close()
	}
	a1.Close()
	select {
	case <-setupDone:
	case <-time.After(40 * time.Second):
		vs = append(vs, kernel.Violation{Class: "rlpx-setup-never-returns", Detail: fmt.Sprintf("SetupConn has not returned 100 simulated seconds after a hostile handshake (role %s, knob %s)", p.Role, p.Knob)})
		return vs
	}
	time.Sleep(35 * time.Second)
	// ---- oracle
	mu.Lock()
	got := append([]peerRecv{}, received...)
	mu.Unlock()
	for _, g := range got {
		if g.size > maxUint24 || g.n > maxUint24 {
			vs = append(vs, kernel.Violation{Class: "rlpx-message-beyond-size-limit-delivered", Detail: fmt.Sprintf("the protocol handler was handed a message of %d bytes (announced %d); the limit is %d (role %s, frames %+v)", g.n, g.size, maxUint24, p.Role, p.Frames)})
			return vs
		}
		// a delivered message belongs to the protocol whose code range its wire code fell into
		if (g.proto == "sim" && g.code >= 16) || (g.proto == "sin" && g.code >= 4) {
			vs = append(vs, kernel.Violation{Class: "rlpx-message-delivered-with-code-outside-the-protocol", Detail: fmt.Sprintf("protocol %q (length %d) was handed a message with code %d (boundary wire codes sent: %v)", g.proto, map[string]int{"sim": 16, "sin": 4}[g.proto], g.code, boundarySent)})
			return vs
		}
		if int(g.size) != g.n {
			vs = append(vs, kernel.Violation{Class: "rlpx-delivered-size-differs-from-payload", Detail: fmt.Sprintf("message code %d announced %d bytes, payload had %d", g.code, g.size, g.n)})
			return vs
		}
	}
	col.Add("hostile_peer_messages_delivered", int64(len(got)))
	if sessionUp && len(got) > 0 {
		col.Inc("probe_hostile_peer_messages_reached_protocol")
	}
	if n := srv.PeerCount(); n != 0 {
		vs = append(vs, kernel.Violation{Class: "rlpx-half-open-session-after-fault", Detail: fmt.Sprintf("the attacker closed its end 35 simulated seconds ago and the victim still counts %d peers", n)})
		return vs
	}
	// liveness: an honest peer is still served
	v2, h2 := connPair()
	go srv.SetupConn(v2, 4, nil)
	okc := make(chan error, 1)
	go func() {
		hp, err := p2p.SimDial(h2, kH.ToECDSA(), victimID, nil)
		if err != nil {
			okc <- err
			return
		}
		_, err = hp.Hello(p2p.SimHello{Version: 5, Name: "honest", Caps: []p2p.Cap{{Name: "sim", Version: 1}}, ID: discover.PubkeyID(kH.PubKey().ToECDSA())})
		if err == nil {
			err = hp.WriteMsg(17, []byte("still here"))
		}
		time.Sleep(time.Second)
		hp.Close()
		okc <- err
	}()
	select {
	case err := <-okc:
		if err != nil {
			vs = append(vs, kernel.Violation{Class: "rlpx-victim-refuses-honest-peer-after-attack", Detail: err.Error()})
			return vs
		}
	case <-time.After(30 * time.Second):
		vs = append(vs, kernel.Violation{Class: "rlpx-victim-refuses-honest-peer-after-attack", Detail: "no protocol handshake within 30 simulated seconds"})
		return vs
	}
	time.Sleep(2 * time.Second)
	mu.Lock()
	n2 := len(received)
	mu.Unlock()
	if n2 <= len(got) {
		vs = append(vs, kernel.Violation{Class: "rlpx-victim-refuses-honest-peer-after-attack", Detail: "the honest peer's message never reached the protocol handler"})
		return vs
	}
	col.Inc("probe_honest_peer_served_after_attack")
	h2.Close()
	time.Sleep(35 * time.Second)
	kernel.SetNonTrivial()
	return vs
}
