module verifsim

go 1.26.8

require (
	github.com/btcsuite/btcd/btcec/v2 v2.3.5-0.20250307104530-c7191d2913c7
	github.com/golang/snappy v1.0.0
	github.com/pborman/uuid v1.2.1
	gitlab.com/aquachain/aquachain v0.0.0
	golang.org/x/crypto v0.37.0
)

require (
	github.com/BurntSushi/toml v1.5.0 // indirect
	github.com/deckarep/golang-set v1.8.0 // indirect
	github.com/decred/dcrd/dcrec/secp256k1/v4 v4.4.0 // indirect
	github.com/edsrzf/mmap-go v1.2.0 // indirect
	github.com/go-stack/stack v1.8.1 // indirect
	github.com/google/uuid v1.6.0 // indirect
	github.com/hashicorp/golang-lru v1.0.2 // indirect
	github.com/huin/goupnp v1.3.0 // indirect
	github.com/jackpal/go-nat-pmp v1.0.2 // indirect
	github.com/joho/godotenv v1.5.1 // indirect
	github.com/mattn/go-colorable v0.1.14 // indirect
	github.com/mattn/go-isatty v0.0.20 // indirect
	github.com/rs/cors v1.11.1 // indirect
	github.com/shopspring/decimal v1.4.0 // indirect
	github.com/syndtr/goleveldb v1.0.0 // indirect
	github.com/urfave/cli/v3 v3.1.1 // indirect
	golang.org/x/net v0.39.0 // indirect
	golang.org/x/sync v0.13.0 // indirect
	golang.org/x/sys v0.32.0 // indirect
	gopkg.in/olebedev/go-duktape.v3 v3.0.0-20210326210528-650f7c854440 // indirect
)

replace gitlab.com/aquachain/aquachain => /repo
