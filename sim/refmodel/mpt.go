// Package refmodel holds the small executable reference models the oracles
// compare the real code against. Nothing here imports aquachain's trie, rlp,
// state or consensus code: the point is independence.
package refmodel

import (
	"bytes"
	"errors"
	"fmt"
	"math/big"
	"sort"

	"golang.org/x/crypto/sha3"
)

func Keccak(b ...[]byte) []byte {
	h := sha3.NewLegacyKeccak256()
	for _, x := range b {
		h.Write(x)
	}
	return h.Sum(nil)
}

// ---- minimal RLP -----------------------------------------------------------

func rlpLen(l int, off byte) []byte {
	if l < 56 {
		return []byte{off + byte(l)}
	}
	var be []byte
	for x := l; x > 0; x >>= 8 {
		be = append([]byte{byte(x)}, be...)
	}
	return append([]byte{off + 55 + byte(len(be))}, be...)
}

// RlpBytes encodes a byte string.
func RlpBytes(b []byte) []byte {
	if len(b) == 1 && b[0] < 0x80 {
		return []byte{b[0]}
	}
	return append(rlpLen(len(b), 0x80), b...)
}

// RlpList wraps already-encoded items into a list.
func RlpList(items ...[]byte) []byte {
	var payload []byte
	for _, it := range items {
		payload = append(payload, it...)
	}
	return append(rlpLen(len(payload), 0xc0), payload...)
}

// RlpUint encodes a big-endian minimal integer.
func RlpUint(x *big.Int) []byte { return RlpBytes(x.Bytes()) }

// Item is a decoded RLP item.
type Item struct {
	List  bool
	Bytes []byte // string payload, or raw list payload
	Raw   []byte // full encoding
	Kids  []Item
}

var ErrRLP = errors.New("refmodel: malformed rlp")

func rlpSplit(b []byte) (it Item, rest []byte, err error) {
	if len(b) == 0 {
		return it, nil, ErrRLP
	}
	p := b[0]
	var off, l int
	switch {
	case p < 0x80:
		return Item{Bytes: b[:1], Raw: b[:1]}, b[1:], nil
	case p < 0xb8:
		off, l = 1, int(p-0x80)
	case p < 0xc0:
		n := int(p - 0xb7)
		if len(b) < 1+n {
			return it, nil, ErrRLP
		}
		for _, c := range b[1 : 1+n] {
			l = l<<8 | int(c)
		}
		off = 1 + n
	case p < 0xf8:
		off, l = 1, int(p-0xc0)
		it.List = true
	default:
		n := int(p - 0xf7)
		if len(b) < 1+n {
			return it, nil, ErrRLP
		}
		for _, c := range b[1 : 1+n] {
			l = l<<8 | int(c)
		}
		off = 1 + n
		it.List = true
	}
	if l < 0 || len(b) < off+l {
		return it, nil, ErrRLP
	}
	it.Bytes = b[off : off+l]
	it.Raw = b[:off+l]
	if it.List {
		pl := it.Bytes
		for len(pl) > 0 {
			var k Item
			k, pl, err = rlpSplit(pl)
			if err != nil {
				return it, nil, err
			}
			it.Kids = append(it.Kids, k)
		}
	}
	return it, b[off+l:], nil
}

// RlpDecode decodes exactly one item.
func RlpDecode(b []byte) (Item, error) {
	it, rest, err := rlpSplit(b)
	if err != nil {
		return it, err
	}
	if len(rest) != 0 {
		return it, ErrRLP
	}
	return it, nil
}

// ---- reference Merkle-Patricia root ---------------------------------------

func nibbles(k []byte) []byte {
	n := make([]byte, len(k)*2)
	for i, b := range k {
		n[2*i], n[2*i+1] = b>>4, b&15
	}
	return n
}

func hexPrefix(nib []byte, leaf bool) []byte {
	flag := byte(0)
	if leaf {
		flag = 2
	}
	var out []byte
	if len(nib)%2 == 1 {
		out = append(out, (flag+1)<<4|nib[0])
		nib = nib[1:]
	} else {
		out = append(out, flag<<4)
	}
	for i := 0; i < len(nib); i += 2 {
		out = append(out, nib[i]<<4|nib[i+1])
	}
	return out
}

type nkv struct {
	k []byte // nibbles
	v []byte
}

func ref(enc []byte) []byte {
	if len(enc) < 32 {
		return enc
	}
	return RlpBytes(Keccak(enc))
}

func mptNode(kvs []nkv, depth int) []byte {
	if len(kvs) == 0 {
		return []byte{0x80}
	}
	if len(kvs) == 1 {
		return RlpList(RlpBytes(hexPrefix(kvs[0].k[depth:], true)), RlpBytes(kvs[0].v))
	}
	// common prefix
	first, last := kvs[0].k, kvs[len(kvs)-1].k
	p := 0
	for depth+p < len(first) && depth+p < len(last) && first[depth+p] == last[depth+p] {
		p++
	}
	if p > 0 {
		return RlpList(RlpBytes(hexPrefix(first[depth:depth+p], false)), ref(mptNode(kvs, depth+p)))
	}
	items := make([][]byte, 17)
	var val []byte
	i := 0
	if len(kvs[0].k) == depth {
		val = kvs[0].v
		i = 1
	}
	for nb := 0; nb < 16; nb++ {
		j := i
		for j < len(kvs) && kvs[j].k[depth] == byte(nb) {
			j++
		}
		if j > i {
			items[nb] = ref(mptNode(kvs[i:j], depth+1))
		} else {
			items[nb] = []byte{0x80}
		}
		i = j
	}
	items[16] = RlpBytes(val)
	return RlpList(items...)
}

// EmptyRoot is the root of the empty trie.
var EmptyRoot = Keccak([]byte{0x80})

// Root computes the Merkle-Patricia root the specification defines for a
// key->value content (empty values are absent keys).
func Root(content map[string][]byte) []byte {
	kvs := make([]nkv, 0, len(content))
	for k, v := range content {
		if len(v) == 0 {
			continue
		}
		kvs = append(kvs, nkv{nibbles([]byte(k)), v})
	}
	sort.Slice(kvs, func(i, j int) bool { return bytes.Compare(kvs[i].k, kvs[j].k) < 0 })
	return Keccak(mptNode(kvs, 0))
}

// ---- independent trie traversal over a raw node store -----------------------

// MissingNode is returned by Walk when a referenced node is not in the store.
type MissingNode struct {
	Hash []byte
	Path []byte
}

func (m *MissingNode) Error() string {
	return fmt.Sprintf("missing trie node %x at path %x", m.Hash, m.Path)
}

type Getter func(key []byte) ([]byte, bool)

func decodeHP(b []byte) (nib []byte, leaf bool, err error) {
	if len(b) == 0 {
		return nil, false, ErrRLP
	}
	flag := b[0] >> 4
	leaf = flag&2 != 0
	if flag&1 != 0 {
		nib = append(nib, b[0]&15)
	}
	for _, c := range b[1:] {
		nib = append(nib, c>>4, c&15)
	}
	return nib, leaf, nil
}

func walkItem(get Getter, it Item, path []byte, visit func(path, value []byte) error, nodes *int) error {
	if !it.List {
		if len(it.Bytes) == 0 {
			return nil
		}
		if len(it.Bytes) != 32 {
			return fmt.Errorf("bad child reference of length %d at %x", len(it.Bytes), path)
		}
		blob, ok := get(it.Bytes)
		if !ok {
			return &MissingNode{Hash: append([]byte{}, it.Bytes...), Path: append([]byte{}, path...)}
		}
		if !bytes.Equal(Keccak(blob), it.Bytes) {
			return fmt.Errorf("stored node %x does not hash to its key", it.Bytes)
		}
		dec, err := RlpDecode(blob)
		if err != nil || !dec.List {
			return fmt.Errorf("undecodable node %x", it.Bytes)
		}
		return walkItem(get, dec, path, visit, nodes)
	}
	*nodes++
	switch len(it.Kids) {
	case 2:
		nib, leaf, err := decodeHP(it.Kids[0].Bytes)
		if err != nil {
			return err
		}
		np := append(append([]byte{}, path...), nib...)
		if leaf {
			return visit(np, it.Kids[1].Bytes)
		}
		return walkItem(get, it.Kids[1], np, visit, nodes)
	case 17:
		for i := 0; i < 16; i++ {
			np := append(append([]byte{}, path...), byte(i))
			if err := walkItem(get, it.Kids[i], np, visit, nodes); err != nil {
				return err
			}
		}
		if len(it.Kids[16].Bytes) > 0 {
			return visit(path, it.Kids[16].Bytes)
		}
		return nil
	}
	return fmt.Errorf("node with %d items at %x", len(it.Kids), path)
}

// Walk traverses the trie rooted at root in the raw store, calling visit for
// every (nibble path, value). It fails with *MissingNode if any referenced
// node is absent. Returns the number of nodes visited.
func Walk(get Getter, root []byte, visit func(path, value []byte) error) (int, error) {
	nodes := 0
	if bytes.Equal(root, EmptyRoot) {
		return 0, nil
	}
	err := walkItem(get, Item{Bytes: root}, nil, visit, &nodes)
	return nodes, err
}

// Account is the decoded content of one state account.
type Account struct {
	Nonce    uint64
	Balance  *big.Int
	Root     []byte
	CodeHash []byte
	Storage  map[string][]byte // hashed slot -> rlp-decoded value bytes
	HasCode  bool
}

var EmptyCode = Keccak(nil)

func nibToBytes(n []byte) []byte {
	out := make([]byte, len(n)/2)
	for i := range out {
		out[i] = n[2*i]<<4 | n[2*i+1]
	}
	return out
}

// StateContent reads the complete state (accounts, storage, code) under root
// from a raw key-value store, failing on the first missing node or code blob.
func StateContent(get Getter, root []byte) (map[string]*Account, int, error) {
	out := map[string]*Account{}
	total := 0
	n, err := Walk(get, root, func(path, value []byte) error {
		it, err := RlpDecode(value)
		if err != nil || !it.List || len(it.Kids) != 4 {
			return fmt.Errorf("undecodable account at %x", path)
		}
		a := &Account{Balance: new(big.Int).SetBytes(it.Kids[1].Bytes), Root: it.Kids[2].Bytes, CodeHash: it.Kids[3].Bytes, Storage: map[string][]byte{}}
		for _, c := range it.Kids[0].Bytes {
			a.Nonce = a.Nonce<<8 | uint64(c)
		}
		sn, err := Walk(get, a.Root, func(sp, sv []byte) error {
			d, err := RlpDecode(sv)
			if err != nil {
				return err
			}
			a.Storage[string(nibToBytes(sp))] = d.Bytes
			return nil
		})
		total += sn
		if err != nil {
			return fmt.Errorf("account %x storage: %w", nibToBytes(path), err)
		}
		if !bytes.Equal(a.CodeHash, EmptyCode) {
			code, ok := get(a.CodeHash)
			if !ok {
				return &MissingNode{Hash: a.CodeHash, Path: path}
			}
			if !bytes.Equal(Keccak(code), a.CodeHash) {
				return fmt.Errorf("code blob %x does not hash to its key", a.CodeHash)
			}
			a.HasCode = true
		}
		out[string(nibToBytes(path))] = a
		return nil
	})
	return out, total + n, err
}

// StateDigest is an order-insensitive digest of a state content.
func StateDigest(st map[string]*Account) string {
	keys := make([]string, 0, len(st))
	for k := range st {
		keys = append(keys, k)
	}
	sort.Strings(keys)
	h := sha3.NewLegacyKeccak256()
	for _, k := range keys {
		a := st[k]
		fmt.Fprintf(h, "%x|%d|%s|%x|", k, a.Nonce, a.Balance, a.CodeHash)
		sk := make([]string, 0, len(a.Storage))
		for s := range a.Storage {
			sk = append(sk, s)
		}
		sort.Strings(sk)
		for _, s := range sk {
			fmt.Fprintf(h, "%x=%x,", s, a.Storage[s])
		}
		h.Write([]byte{'\n'})
	}
	return fmt.Sprintf("%x", h.Sum(nil))
}
