package refmodel

import (
	"fmt"
	"math/big"
)

// Reference implementation of the header acceptance rules of property C13,
// written from the protocol description. All constants are literals here (not
// imports of params), so that a changed constant in the repository shows up
// as a divergence instead of being mirrored silently.

// Hdr is the part of a header the rules look at.
type Hdr struct {
	Number     uint64
	Time       *big.Int
	Difficulty *big.Int
	GasLimit   uint64
	GasUsed    uint64
	ExtraLen   int
}

// Forks maps hard fork number -> activation height (absent = never).
type Forks map[int]uint64

func (f Forks) is(hf int, n uint64) bool {
	h, ok := f[hf]
	return ok && n >= h
}
func (f Forks) at(hf int, n uint64) bool {
	h, ok := f[hf]
	return ok && n == h
}

const mainnetChainID = 61717561

var (
	minGenesis = big.NewInt(99999999)
	minHF1     = big.NewInt(100001792)
	minHF3     = new(big.Int).Mul(big.NewInt(3095918580), big.NewInt(10))
	minHF5     = big.NewInt(46039386)
)

// homesteadStyle: parent + parent/2048 * max(1 - gap/10, -99)
func homesteadStyle(gap *big.Int, parentDiff *big.Int) *big.Int {
	x := new(big.Int).Div(gap, big.NewInt(10))
	x.Sub(big.NewInt(1), x)
	if x.Cmp(big.NewInt(-99)) < 0 {
		x.SetInt64(-99)
	}
	y := new(big.Int).Div(parentDiff, big.NewInt(2048))
	x.Mul(y, x)
	return x.Add(parentDiff, x)
}

// ExpectedDifficulty is the fork-scheduled adjustment formula.
func ExpectedDifficulty(forks Forks, chainID uint64, time *big.Int, parent Hdr) *big.Int {
	next := parent.Number + 1
	gap := new(big.Int).Sub(time, parent.Time)
	// scheduled resets at the fork blocks (in the precedence the protocol gives
	// them when heights are distinct: HF8, HF5, HF3, HF1 reset; HF2/HF6/HF7 do not)
	switch {
	case forks.at(8, next):
		return new(big.Int).Set(minHF5)
	case forks.at(6, next), forks.at(7, next):
		// no reset: regular formula below
	case forks.at(5, next):
		return new(big.Int).Set(minHF5)
	case forks.at(3, next):
		return new(big.Int).Set(minHF3)
	case forks.at(2, next):
		// regular formula
	case forks.is(2, next):
		// regular formula
	case forks.at(1, next):
		return new(big.Int).Set(minHF1)
	case forks.is(1, next):
		d := homesteadStyle(gap, parent.Difficulty)
		if chainID == mainnetChainID && d.Cmp(minHF1) < 0 {
			d.Set(minHF1)
		}
		return d
	default:
		d := homesteadStyle(gap, parent.Difficulty)
		if chainID == mainnetChainID && d.Cmp(minGenesis) < 0 {
			d.Set(minGenesis)
		}
		return d
	}
	// simple algorithm from HF2: parent +- parent/divisor, floored at the active minimum
	divisor := int64(2048)
	switch {
	case forks.is(8, next):
		divisor = 1024
	case forks.is(6, next):
		divisor = 128
	case forks.is(5, next):
		divisor = 16
	}
	min := minGenesis
	switch {
	case forks.is(5, next):
		min = minHF5
	case forks.is(3, next):
		min = minHF3
	case forks.is(1, next):
		min = minHF1
	}
	limit := int64(240)
	if forks.is(6, next) {
		limit = 180
	}
	adjust := new(big.Int).Div(parent.Difficulty, big.NewInt(divisor))
	d := new(big.Int)
	if gap.Cmp(big.NewInt(limit)) < 0 {
		d.Add(parent.Difficulty, adjust)
	} else {
		d.Sub(parent.Difficulty, adjust)
	}
	if d.Cmp(min) < 0 {
		d.Set(min)
	}
	return d
}

// HeaderVerdict says why the rules reject a header ("" = accepted).
// uncle=true skips the clock rule (uncle headers are not checked against the clock).
func HeaderVerdict(forks Forks, chainID uint64, now int64, h, parent Hdr, uncle bool) string {
	if h.ExtraLen > 32 {
		return "extra-data longer than 32 bytes"
	}
	if !uncle && h.Time.Cmp(big.NewInt(now+15)) > 0 {
		return "future"
	}
	if h.Time.Cmp(parent.Time) <= 0 {
		return "timestamp not later than parent"
	}
	if want := ExpectedDifficulty(forks, chainID, h.Time, parent); want.Cmp(h.Difficulty) != 0 {
		return fmt.Sprintf("difficulty %v != scheduled %v", h.Difficulty, want)
	}
	if h.GasLimit > 1<<63-1 {
		return "gas limit above 2^63-1"
	}
	if h.GasUsed > h.GasLimit {
		return "gas used above gas limit"
	}
	var diff uint64
	if h.GasLimit > parent.GasLimit {
		diff = h.GasLimit - parent.GasLimit
	} else {
		diff = parent.GasLimit - h.GasLimit
	}
	if diff >= parent.GasLimit/1024 || h.GasLimit < 5000 {
		return "gas limit out of bounds"
	}
	if h.Number != parent.Number+1 {
		return "number is not parent+1"
	}
	return ""
}

// MaxUncles is the fork's uncle limit.
func MaxUncles(forks Forks, number uint64) int {
	if forks.is(5, number) {
		return 1
	}
	return 2
}

// HeaderVersion is the proof-of-work algorithm version selected by height alone.
func HeaderVersion(forks Forks, number uint64) int {
	switch {
	case forks.is(9, number):
		return 4
	case forks.is(8, number):
		return 3
	case forks.is(5, number):
		return 2
	}
	return 1
}
