package refmodel

import (
	"crypto/aes"
	"crypto/cipher"
	"crypto/sha256"
	"encoding/hex"
	"fmt"

	"golang.org/x/crypto/pbkdf2"
	"golang.org/x/crypto/scrypt"
)

// Web3 secret storage, written from the format description (the repository
// only reads the pbkdf2 and version-1 forms; this encoder produces them).

// SecretParams selects the form of a key file.
type SecretParams struct {
	Version int    // 3 or 1
	KDF     string // "scrypt" | "pbkdf2"
	N, R, P int    // scrypt
	C       int    // pbkdf2 iterations
	DKLen   int
	Salt    []byte
	IV      []byte // 16 bytes
	ID      string // uuid text
	Address string // 40 hex chars, "" = omit
}

func deriveKey(p *SecretParams, pass string) ([]byte, error) {
	switch p.KDF {
	case "scrypt":
		return scrypt.Key([]byte(pass), p.Salt, p.N, p.R, p.P, p.DKLen)
	case "pbkdf2":
		return pbkdf2.Key([]byte(pass), p.Salt, p.C, p.DKLen, sha256.New), nil
	}
	return nil, fmt.Errorf("kdf %q", p.KDF)
}

// EncodeSecret builds the JSON key file of a 32-byte private key.
func EncodeSecret(priv []byte, pass string, p *SecretParams) ([]byte, error) {
	dk, err := deriveKey(p, pass)
	if err != nil {
		return nil, err
	}
	if len(dk) < 32 {
		return nil, fmt.Errorf("dklen %d", len(dk))
	}
	var ct []byte
	cipherName := "aes-128-ctr"
	switch p.Version {
	case 3:
		blk, err := aes.NewCipher(dk[:16])
		if err != nil {
			return nil, err
		}
		ct = make([]byte, len(priv))
		cipher.NewCTR(blk, p.IV).XORKeyStream(ct, priv)
	case 1:
		cipherName = "aes-128-cbc"
		blk, err := aes.NewCipher(Keccak(dk[:16])[:16])
		if err != nil {
			return nil, err
		}
		pad := 16 - len(priv)%16
		padded := append(append([]byte{}, priv...), make([]byte, pad)...)
		for i := len(priv); i < len(padded); i++ {
			padded[i] = byte(pad)
		}
		ct = make([]byte, len(padded))
		cipher.NewCBCEncrypter(blk, p.IV).CryptBlocks(ct, padded)
	default:
		return nil, fmt.Errorf("version %d", p.Version)
	}
	mac := Keccak(append(append([]byte{}, dk[16:32]...), ct...))
	var kdfparams string
	if p.KDF == "scrypt" {
		kdfparams = fmt.Sprintf(`{"dklen":%d,"n":%d,"p":%d,"r":%d,"salt":"%s"}`, p.DKLen, p.N, p.P, p.R, hex.EncodeToString(p.Salt))
	} else {
		kdfparams = fmt.Sprintf(`{"c":%d,"dklen":%d,"prf":"hmac-sha256","salt":"%s"}`, p.C, p.DKLen, hex.EncodeToString(p.Salt))
	}
	crypto := fmt.Sprintf(`{"cipher":"%s","ciphertext":"%s","cipherparams":{"iv":"%s"},"kdf":"%s","kdfparams":%s,"mac":"%s"}`,
		cipherName, hex.EncodeToString(ct), hex.EncodeToString(p.IV), p.KDF, kdfparams, hex.EncodeToString(mac))
	addr := ""
	if p.Address != "" {
		addr = fmt.Sprintf(`"address":"%s",`, p.Address)
	}
	ver := "3"
	if p.Version == 1 {
		ver = `"1"`
	}
	return []byte(fmt.Sprintf(`{%s"crypto":%s,"id":"%s","version":%s}`, addr, crypto, p.ID, ver)), nil
}

// ---- locating a byte position in a JSON document --------------------------------------------

// JSONPathAt returns the dotted path of the member whose name or value
// contains byte offset pos ("" for structural characters outside any member),
// and whether pos lies in the member's name.
func JSONPathAt(doc []byte, pos int) (path string, inName bool) {
	type frame struct {
		name string
	}
	var stack []string
	i := 0
	var cur string // name of the member being read at this level
	expectName := false
	var levelsExpect []bool
	skipString := func() (start, end int) {
		start = i
		i++
		for i < len(doc) && doc[i] != '"' {
			if doc[i] == '\\' {
				i++
			}
			i++
		}
		end = i
		i++
		return
	}
	join := func(extra string) string {
		s := ""
		for _, n := range stack {
			if s != "" {
				s += "."
			}
			s += n
		}
		if extra != "" {
			if s != "" {
				s += "."
			}
			s += extra
		}
		return s
	}
	for i < len(doc) {
		c := doc[i]
		switch {
		case c == '{':
			if cur != "" {
				stack = append(stack, cur)
				cur = ""
			} else {
				stack = append(stack, "")
			}
			levelsExpect = append(levelsExpect, expectName)
			expectName = true
			if i == pos {
				return join(""), false
			}
			i++
		case c == '}':
			if i == pos {
				return join(""), false
			}
			if len(stack) > 0 {
				stack = stack[:len(stack)-1]
			}
			if len(levelsExpect) > 0 {
				levelsExpect = levelsExpect[:len(levelsExpect)-1]
			}
			expectName = false
			cur = ""
			i++
		case c == '"':
			s, e := skipString()
			if expectName {
				cur = string(doc[s+1 : min(e, len(doc))])
				if pos >= s && pos <= e {
					return join(cur), true
				}
				expectName = false
			} else {
				if pos >= s && pos <= e {
					return join(cur), false
				}
			}
		case c == ':':
			if i == pos {
				return join(cur), false
			}
			i++
		case c == ',':
			if i == pos {
				return join(""), false
			}
			expectName = true
			cur = ""
			i++
		default: // number / literal / whitespace
			if i == pos {
				return join(cur), false
			}
			i++
		}
	}
	return "", false
}
