package refmodel

import (
	"encoding/binary"
	"math/big"

	"golang.org/x/crypto/argon2"
)

// SealHdr is a header as the wire carries it (the version is not on the wire).
type SealHdr struct {
	ParentHash, UncleHash, Root, TxHash, ReceiptHash []byte // 32
	Coinbase                                         []byte // 20
	Bloom                                            []byte // 256
	Difficulty, Number, Time                         *big.Int
	GasLimit, GasUsed                                uint64
	Extra                                            []byte
	MixDigest                                        []byte // 32
	Nonce                                            uint64
}

func argonMem(version int) uint32 {
	switch version {
	case 2:
		return 1
	case 3:
		return 16
	case 4:
		return 32
	}
	return 0
}

// PowHash is the proof-of-work function of header versions 2..4: argon2id, one
// pass, one lane, 1 / 16 / 32 KiB, no salt, 32 bytes.
func PowHash(version int, data []byte) []byte {
	return argon2.IDKey(data, nil, 1, argonMem(version), 1, 32)
}

func sealFreeRLP(h *SealHdr) []byte {
	return RlpList(RlpBytes(h.ParentHash), RlpBytes(h.UncleHash), RlpBytes(h.Coinbase), RlpBytes(h.Root), RlpBytes(h.TxHash), RlpBytes(h.ReceiptHash),
		RlpBytes(h.Bloom), RlpUint(h.Difficulty), RlpUint(h.Number), RlpUint(new(big.Int).SetUint64(h.GasLimit)), RlpUint(new(big.Int).SetUint64(h.GasUsed)), RlpUint(h.Time), RlpBytes(h.Extra))
}

// SealFreeHash: Keccak-256 of the header without mix digest and nonce, except
// for version 3, whose header hashes use its own 16 KiB argon2id function.
func SealFreeHash(version int, h *SealHdr) []byte {
	enc := sealFreeRLP(h)
	if version == 3 {
		return PowHash(3, enc)
	}
	return Keccak(enc)
}

// HeaderHash is the block hash: the full header under the version's hash
// (Keccak-256 for version 1, the version's argon2id function otherwise).
func HeaderHash(version int, h *SealHdr) []byte {
	nonce := make([]byte, 8)
	binary.BigEndian.PutUint64(nonce, h.Nonce)
	enc := RlpList(RlpBytes(h.ParentHash), RlpBytes(h.UncleHash), RlpBytes(h.Coinbase), RlpBytes(h.Root), RlpBytes(h.TxHash), RlpBytes(h.ReceiptHash),
		RlpBytes(h.Bloom), RlpUint(h.Difficulty), RlpUint(h.Number), RlpUint(new(big.Int).SetUint64(h.GasLimit)), RlpUint(new(big.Int).SetUint64(h.GasUsed)), RlpUint(h.Time), RlpBytes(h.Extra),
		RlpBytes(h.MixDigest), RlpBytes(nonce))
	if version <= 1 {
		return Keccak(enc)
	}
	return PowHash(version, enc)
}

// SealVerdict: is the seal of h acceptable under the given version (2..4)?
// hash(sealFree || nonce little-endian) <= floor(2^256 / difficulty), mix digest
// all zero, difficulty positive.
func SealVerdict(version int, h *SealHdr) (ok bool, why string) {
	if h.Difficulty.Sign() <= 0 {
		return false, "non-positive difficulty"
	}
	for _, b := range h.MixDigest {
		if b != 0 {
			return false, "mix digest"
		}
	}
	seed := make([]byte, 40)
	copy(seed, SealFreeHash(version, h))
	binary.LittleEndian.PutUint64(seed[32:], h.Nonce)
	res := new(big.Int).SetBytes(PowHash(version, seed))
	target := new(big.Int).Div(new(big.Int).Lsh(big.NewInt(1), 256), h.Difficulty)
	if res.Cmp(target) > 0 {
		return false, "above target"
	}
	return true, ""
}
