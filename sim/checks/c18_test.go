package checks

import (
	"os"
	"testing"

	"verifsim/kernel"
	"verifsim/rpcsim"
)

func TestC18(t *testing.T) {
	kernel.Run(t, &kernel.Spec{
		Prop: "C18", Engine: "rpcsim",
		Generate: rpcsim.Gen, Decode: rpcsim.DecodePlan, Execute: rpcsim.Exec,
		Shrink: rpcsim.Shrink, Narrow: rpcsim.Narrow, Hash: rpcsim.HashPlan,
		StallS: 300, ShrinkBudget: 12,
		Meta: map[string]any{
			"components": map[string]string{
				"node.Node (startRPC: in-proc, IPC, HTTP, WS servers), rpc.Server registration and dispatch, every API object of node and the aqua service": "real, one child process per opt-in configuration",
				"aqua.Aquachain (chain, tx pool, miner, filters, downloader APIs), keystore on disk with a locked and an unlocked account":                  "real",
				"RPC clients (rpcclient over in-proc pipe, unix socket, HTTP, WebSocket)":                                                                   "real client library, loopback sockets, calls issued one at a time",
				"p2p server":            "real but isolated (no discovery, no peers)",
				"clock, scheduler":      "real (the property has no timing or interleaving clause; calls are sequential)",
				"signature observation": "guarded hook at the six keystore signing entry points, after the key has been found/decrypted",
				"clique development chain (-chain dev sealing)": "not deployed: block sealing there signs by design once mining is on",
			},
			"assumptions": []string{
				"the opt-in variables are read once at process start, so each configuration runs in its own child process; the child is the test binary re-executed",
				"methods are enumerated by reflection over every API object the running node reports (all exported methods, whether or not a server registered them), so a method that a refactoring exposes under a new name is called too",
			},
		},
	})
}

// TestC18Child is the body of the child process; it does nothing unless the
// parent passed a plan.
func TestC18Child(t *testing.T) {
	plan, out := os.Getenv("VERIF_C18_PLAN"), os.Getenv("VERIF_C18_OUT")
	if plan == "" || out == "" {
		t.Skip("child entry point")
	}
	rpcsim.RunChild(plan, out)
}
