package checks

import (
	"testing"

	"verifsim/chainsim"
	"verifsim/kernel"
)

func TestC02(t *testing.T) {
	kernel.Run(t, &kernel.Spec{
		Prop: "C02", Engine: "chainsim",
		Generate: chainsim.GenC02, Decode: chainsim.DecodePlan, Execute: chainsim.ExecChain("C02"),
		Shrink: chainsim.ShrinkPlan, Hash: chainsim.HashPlan,
		StallS: 60, Meta: chainMeta,
	})
}
