package checks

import (
	"bytes"
	"encoding/json"
	"os"
	"testing"

	"verifsim/chainsim"
	"verifsim/kernel"
	"verifsim/netsim"
)

// C02 has two kinds of plan: direct import histories (chainsim.Plan) and
// full-stack networks (netsim.FullPlan: whole nodes joined by the real p2p and
// sub-protocol stack, with mining, partitions and heals), and miner histories in which
// the write of a freshly mined block overlaps the import of a competing block; every eleventh case is
// a future-block history (chainsim/future.go): timestamps straddling the clock, the chain's own timer.
func TestC02(t *testing.T) {
	imp := chainsim.ExecChain("C02")
	meta := map[string]any{}
	for k, v := range chainMeta {
		meta[k] = v
	}
	comps := map[string]string{}
	for k, v := range chainMeta["components"].(map[string]string) {
		comps[k] = v
	}
	comps["full-stack cases: p2p.Server (RLPx), aqua.ProtocolManager (status handshake, block/tx broadcast, fetcher, downloader), core.TxPool, opt/miner"] = "real, 2-4 whole nodes per case joined by in-memory connections; the simulator owns links (partition/heal), the clock, who finds a block when (gated Seal) and client submissions"
	comps["mined-versus-imported cases: opt/miner worker, core.TxPool, BlockChain.WriteBlockWithState / InsertChain"] = "real; the simulator parks the mined block's write at a guarded yield point in front of the chain mutex while a competing block of the same height is imported, then releases it"
	meta["components"] = comps
	kernel.Run(t, &kernel.Spec{
		Prop: "C02", Engine: "chainsim+netsim",
		Generate: func(rng *kernel.RNG, env *kernel.Env, k int) any {
			if k%11 == 10 || os.Getenv("VERIF_ONLY") == "future" {
				return chainsim.GenC02Future(rng, env, k)
			}
			if k%5 == 4 {
				return netsim.GenFullPlan(rng, env, k)
			}
			if k%7 == 6 {
				return chainsim.GenMineRacePlan(rng, env, k)
			}
			return chainsim.GenC02(rng, env, k)
		},
		Decode: func(raw json.RawMessage) (any, error) {
			if bytes.Contains(raw, []byte(`"miners"`)) {
				return netsim.DecodeFullPlan(raw)
			}
			if bytes.Contains(raw, []byte(`"steps"`)) {
				return chainsim.DecodeMinePlan(raw)
			}
			return chainsim.DecodePlan(raw)
		},
		Execute: func(t *testing.T, p any, col *kernel.Collector) []kernel.Violation {
			if fp, ok := p.(*netsim.FullPlan); ok {
				return netsim.ExecFull(t, fp, col)
			}
			if mp, ok := p.(*chainsim.MinePlan); ok {
				return chainsim.ExecMine(t, mp, col)
			}
			return imp(t, p, col)
		},
		Shrink: func(p any) []any {
			if fp, ok := p.(*netsim.FullPlan); ok {
				return netsim.ShrinkFullPlan(fp)
			}
			if mp, ok := p.(*chainsim.MinePlan); ok {
				return chainsim.ShrinkMinePlan(mp)
			}
			return chainsim.ShrinkPlan(p)
		},
		Hash: func(p any) uint64 {
			if fp, ok := p.(*netsim.FullPlan); ok {
				return netsim.HashFullPlan(fp)
			}
			if mp, ok := p.(*chainsim.MinePlan); ok {
				return chainsim.HashMinePlan(mp)
			}
			return chainsim.HashPlan(p)
		},
		StallS: 120, ShrinkBudget: 300, Meta: meta,
	})
}
