package checks

import (
	"testing"

	"verifsim/kernel"
	"verifsim/netsim"
)

func TestC17(t *testing.T) {
	kernel.Run(t, &kernel.Spec{
		Prop: "C17", Engine: "netsim",
		Generate: netsim.Gen, Decode: netsim.DecodePlan, Execute: netsim.Exec,
		Shrink: netsim.Shrink, Hash: netsim.HashPlan,
		StallS: 120,
		Meta: map[string]any{
			"components": map[string]string{
				"p2p/discover (udp read loop, packet decoding, table, bonding)":                                                                                    "real, on a simulated datagram network",
				"p2p.Server, RLPx transport (ECIES handshake, framing, MACs, snappy), peer read/ping loops":                                                        "real, two complete servers joined by SetupConn over in-memory connections with a fault-injecting link",
				"aqua.ProtocolManager sub-protocol handler (status handshake, every message code), downloader/fetcher hooks, tx pool, chain":                       "real, attacker speaks over p2p.MsgPipe",
				"aqua/downloader (full sync: ancestor search, skeleton and fill of the header download, body fetch, import into a real chain on a simulated disk)": "real; the peer is the simulator's (serves the oracle node's chain, lies about chosen requests), deliveries arrive on their own goroutine after the link latency",
				"sockets, NAT, dial scheduler, discovery bootstrap":                                                                                                "stub / not started",
				"clock (handshake, frame, reply and expiration timeouts)":                                                                                          "synctest fake clock",
			},
			"assumptions": []string{
				"a panic on one of the node's own goroutines kills the worker process; the driver turns the plan that was executing into the replay file of a process-crash violation",
				"goroutine interleaving inside the servers between two quiescence points is not decided by the simulator (workers run with one P); the oracles used here hold under every interleaving",
			},
		},
	})
}
