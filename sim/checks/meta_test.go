package checks

var chainMeta = map[string]any{
	"components": map[string]string{
		"core.BlockChain / HeaderChain / StateProcessor / BlockValidator": "real",
		"state.StateDB, trie, trie.Database":                              "real",
		"aquahash engine":                                                 "real rules, fake seal (ModeFake)",
		"block building (core.GenerateChain)":                             "real",
		"miner (opt/miner worker, CPU agent, unconfirmed set), core.TxPool (C01 miner histories)":                                      "real; proof-of-work discovery is the simulator's (Seal parks on a gate)",
		"fast sync (C05/C06 histories): InsertHeaderChain, InsertReceiptChain, state.NewStateSync / trie.TrieSync, FastSyncCommitHead": "real; the downloader around them is the simulator's (the oracle node's database answers the scheduler's requests in seeded order and batch sizes)",
		"disk (LevelDB)":                                   "stub: simdisk",
		"network / gossip, downloader, fetcher":            "stub: deliveries are plan operations (direct mode)",
		"oracle node O":                                    "real code on a fault-free in-memory database, one more history",
		"fork-choice / canonical-index / tx-lookup models": "reference models over the simulator's block tree (header difficulties only)",
	},
	"assumptions": []string{
		"go1.26.8 testing/synctest fake clock and quiescence; harness and reference models",
		"generated block timestamps stay below the fake clock (no future blocks in these histories)",
		"exact total-difficulty ties may resolve either way",
	},
}
