package checks

import (
	"encoding/json"
	"fmt"
	"os"
	"testing"

	"gitlab.com/aquachain/aquachain/common/log"
	"verifsim/chainsim"
	"verifsim/kernel"
)

func TestDebugReplay(t *testing.T) {
	b, _ := os.ReadFile(os.Getenv("VERIF_REPLAY"))
	var rf kernel.ReplayFile
	json.Unmarshal(b, &rf)
	p, _ := chainsim.DecodePlan(rf.Plan)
	log.SetRootHandler(log.StreamHandler(os.Stdout, log.TerminalFormat(false)))
	vs := chainsim.ExecChain(rf.Property)(t, p, kernel.NewCollector())
	fmt.Println(vs)
}
