package checks

import (
	"testing"

	"verifsim/kernel"
	"verifsim/storesim"
)

func TestC20(t *testing.T) {
	kernel.Run(t, &kernel.Spec{
		Prop: "C20", Engine: "storesim",
		Generate: storesim.GenKeyPlan, Decode: storesim.DecodeKeyPlan, Execute: storesim.ExecKey,
		Shrink: storesim.ShrinkKeyPlan, Narrow: storesim.NarrowKeyPlan, Hash: storesim.HashKeyPlan,
		StallS: 180, ShrinkBudget: 6,
		Meta: map[string]any{
			"components": map[string]string{
				"keystore.EncryptKey / DecryptKey (scrypt, pbkdf2, AES-CTR, AES-CBC v1, MAC), Key JSON codec":                                     "real",
				"KeyStore manager (account cache, Unlock/Lock, Export, Import, Update, SignHashWithPassphrase, SignHashAllowed), plaintext store": "real, over a scratch directory whose key file the simulator rewrites between operations",
				"pbkdf2 / version-1 key files": "written by an independent encoder (refmodel/secretstorage.go); the repository only reads these forms",
				"crypto/rand (salt, IV)":       "seeded per run (testing/cryptotest.SetGlobalRandom)",
				"disk":                         "real temporary directory; the fault is the stored byte the simulator substitutes, deletes or truncates at",
				"clock, scheduler":             "real; operations strictly sequential (the statement has no timing clause)",
			},
			"assumptions": []string{
				"single-character alteration = substitution of one byte by up to 12 replacement characters (neighbouring hex digit, case flip, digits, '-', '.', 'e', '\"', one seeded printable) or deletion of one byte, at every byte position of the file (names and structure included); truncation at every length",
				"a panic while reading an altered file is reported as a violation: the statement allows an error or the original key, nothing else",
			},
		},
	})
}
