package checks

import (
	"testing"

	"verifsim/kernel"
	"verifsim/schedsim"
)

func TestC14(t *testing.T) {
	kernel.Run(t, &kernel.Spec{
		Prop: "C14", Engine: "schedsim",
		Generate: schedsim.GenSealPlan, Decode: schedsim.DecodeSealPlan, Execute: schedsim.ExecSeal,
		Shrink: schedsim.ShrinkSealPlan, Hash: schedsim.HashSealPlan,
		StallS: 120, ShrinkBudget: 150,
		Meta: map[string]any{
			"components": map[string]string{
				"aquahash engine: Seal (thread fan-out, stop, update/restart), mine loop, VerifySeal, argon2id versions 2-4": "real (ModeNormal, StartVersion 2)",
				"search threads":                       "real goroutines adopted at a guarded yield point: one nonce attempt per release, the simulator chooses which thread runs",
				"consensus.ChainReader":                "simulator-owned (only Config() is consulted)",
				"transport between miner and verifier": "simulated: sealed headers are altered in one field before verification",
				"reference verifier":                   "independent: own RLP, Keccak, argon2.IDKey called directly, literal fork tables (refmodel/seal.go)",
				"ethash (header version 1)":            "not simulated (needs a DAG); covered only by the repository's own test",
			},
			"assumptions": []string{
				"scope: the miner/verifier interplay under thread scheduling, stop and SetThreads, and damaged seals; the acceptance predicate by itself is a pure function of its input and is only sampled here (hash == target exactly is not reachable by search)",
				"a running Seal finds a nonce within 400 x difficulty + 400 attempts (failure probability below e^-400)",
			},
		},
	})
}
