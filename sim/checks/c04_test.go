package checks

import (
	"testing"

	"verifsim/chainsim"
	"verifsim/kernel"
)

func TestC04(t *testing.T) {
	kernel.Run(t, &kernel.Spec{
		Prop: "C04", Engine: "chainsim+simdisk",
		Generate: chainsim.GenC04, Decode: chainsim.DecodePlan, Execute: chainsim.ExecC04,
		Shrink: chainsim.ShrinkPlan, Narrow: chainsim.NarrowC04, Hash: chainsim.HashPlan,
		StallS:          30,
		StallRecognizer: kernel.MutexLeakRecognizer("after-failed-write/deadlock-trie-database-lock-leaked", "aquachain/trie.", "/trie/database.go"),
	})
}
