package checks

import (
	"testing"

	"verifsim/kernel"
	"verifsim/storesim"
)

func TestC09(t *testing.T) {
	kernel.Run(t, &kernel.Spec{
		Prop: "C09", Engine: "storesim",
		Generate: storesim.GenStatePlan, Decode: storesim.DecodeStatePlan, Execute: storesim.ExecState,
		Shrink: storesim.ShrinkStatePlan, Hash: storesim.HashStatePlan,
		StallS: 60, ShrinkBudget: 300,
		Meta: map[string]any{
			"components": map[string]string{
				"state.StateDB, stateObject, journal, cachingDB, SecureTrie, trie.Database": "real",
				"disk":  "stub: simdisk (cold reopen = fresh state database over the disk; crash before flush = only the disk survives)",
				"model": "plain maps with a stack of deep copies for snapshots; state root from the independent Merkle-Patricia reference (own RLP account encoding)",
			},
			"assumptions": []string{
				"one finalise flag (empty-account deletion on or off) per history, as on a real chain within one fork epoch; mixing both in one history makes the result depend on the protocol's touched-set, which is not content",
			},
		},
	})
}
