package checks

import (
	"testing"

	"verifsim/kernel"
	"verifsim/schedsim"
)

func TestC16(t *testing.T) {
	kernel.Run(t, &kernel.Spec{
		Prop: "C16", Engine: "chainsim+schedsim",
		Generate: schedsim.GenLogPlan, Decode: schedsim.DecodeLogPlan, Execute: schedsim.ExecLogs,
		Shrink: schedsim.ShrinkLogPlan, Hash: schedsim.HashLogPlan,
		StallS: 90,
		Meta: map[string]any{
			"components": map[string]string{
				"types.CreateBloom / LogsBloom / BloomLookup, receipts and header blooms":                                    "real (block building and import)",
				"core.ChainIndexer + aqua.BloomIndexer (bloombits.Generator), bloombits.Matcher + scheduler, filters.Filter": "real (indexer confirmation depth lowered through a verif-only constructor)",
				"filters.Backend":                 "simulator-owned, over the real node's database and chain",
				"bloom retrieval service":         "stub mirroring aqua.startBloomHandlers; its server goroutines are gate-scheduled actors (order, delay and batching of answers decided by the plan)",
				"bloom membership / query oracle": "independent 3x11-bit bloom function; brute-force scan of the oracle node's canonical receipts",
			},
			"assumptions": []string{"cancelled queries may return any prefix of the exact answer"},
		},
	})
}
