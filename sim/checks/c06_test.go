package checks

import (
	"testing"

	"verifsim/chainsim"
	"verifsim/kernel"
)

func TestC06(t *testing.T) {
	kernel.Run(t, &kernel.Spec{
		Prop: "C06", Engine: "chainsim",
		Generate: chainsim.GenLedger, Decode: chainsim.DecodePlan, Execute: chainsim.ExecLedger("C06"),
		Shrink: chainsim.ShrinkPlan, Hash: chainsim.HashPlan,
		StallS: 60, ShrinkBudget: 300, Meta: chainMeta,
	})
}
