package checks

import (
	"testing"

	"verifsim/kernel"
	"verifsim/schedsim"
)

func TestC15(t *testing.T) {
	kernel.Run(t, &kernel.Spec{
		Prop: "C15", Engine: "chainsim+schedsim",
		Generate: schedsim.GenPoolPlan, Decode: schedsim.DecodePoolPlan, Execute: schedsim.ExecPool,
		Shrink: schedsim.ShrinkPoolPlan, Hash: schedsim.HashPoolPlan,
		StallS: 60,
		Meta: map[string]any{
			"components": map[string]string{
				"core.TxPool (loop goroutine, txList, txPricedList, ManagedState)":            "real",
				"core.BlockChain under the pool (head events, reorgs, GetBlock re-injection)": "real, on the simulated disk",
				"clock (eviction / report / journal tickers, heartbeats)":                     "synctest fake clock",
				"scheduling of the pool's head-event handler":                                 "decided by the simulator (yield point at the handler; the loop goroutine is adopted as an actor)",
				"miner worker": "not part of this check",
			},
			"assumptions": []string{
				"every public pool method holds pool.mu for its whole body, so interleavings of callers are exactly the orders the plan lists",
				"accounts ever used with AddLocal are exempt from the limit clauses (conservative)",
				"the re-injection clause is judged only under roomy limits and when the dropped transaction is still valid at the new head",
			},
		},
	})
}
