package checks

import (
	"testing"

	"verifsim/chainsim"
	"verifsim/kernel"
)

func TestC05(t *testing.T) {
	kernel.Run(t, &kernel.Spec{
		Prop: "C05", Engine: "chainsim",
		Generate: chainsim.GenLedger, Decode: chainsim.DecodePlan, Execute: chainsim.ExecLedger("C05"),
		Shrink: chainsim.ShrinkPlan, Hash: chainsim.HashPlan,
		StallS: 60, ShrinkBudget: 300, Meta: chainMeta,
	})
}
