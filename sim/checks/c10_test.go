package checks

import (
	"testing"

	"verifsim/kernel"
	"verifsim/storesim"
)

func TestC10(t *testing.T) {
	kernel.Run(t, &kernel.Spec{
		Prop: "C10", Engine: "storesim",
		Generate: storesim.GenTriePlan, Decode: storesim.DecodeTriePlan, Execute: storesim.ExecTrie,
		Shrink: storesim.ShrinkTriePlan, Hash: storesim.HashTriePlan,
		StallS: 60, ShrinkBudget: 300,
		Meta: map[string]any{
			"components": map[string]string{
				"trie.Trie / SecureTrie / hasher / iterator / Prove / VerifyProof, trie.Database, types.DeriveSha": "real",
				"disk":                  "stub: simdisk (crash before flush = fresh trie database over the disk image)",
				"root / content oracle": "map model + independent Merkle-Patricia root (refmodel: own hex-prefix, RLP, Keccak)",
				"proof transport":       "simulated: an honest verifier stores every received node under the hash of its bytes; nodes are altered / omitted in flight",
			},
			"assumptions": []string{
				"stored node blobs are not corrupted (the trie trusts its database by design; the statement makes no claim under disk corruption)",
			},
		},
	})
}
