//go:debug randseednop=0
package checks

import (
	"os"
	"testing"
)

func TestMain(m *testing.M) {
	os.Exit(m.Run())
}
