package checks

import (
	"testing"

	"verifsim/kernel"
	"verifsim/schedsim"
)

func TestC19(t *testing.T) {
	kernel.Run(t, &kernel.Spec{
		Prop: "C19", Engine: "schedsim",
		Generate: schedsim.GenFeedPlan, Decode: schedsim.DecodeFeedPlan, Execute: schedsim.ExecFeed,
		Shrink: schedsim.ShrinkFeedPlan, Hash: schedsim.HashFeedPlan,
		StallS: 30, ShrinkBudget: 400,
		Meta: map[string]any{
			"components": map[string]string{
				"event.Feed (Send/Subscribe/remove), feedSub, SubscriptionScope": "real",
				"goroutine scheduling": "decided by the simulator: actors park on gates before every call and at 4 yield points inside Send/remove; one release at a time, synctest.Wait as quiescence barrier",
				"subscribers":          "simulated: non-blocking polls issued only when released (slow subscriber = rarely released)",
			},
			"assumptions": []string{
				"interleavings are explored at blocking points and at the listed yield points, not at every memory access",
				"no yield sits between Feed.Send's TrySend sweep and reflect.Select (argued in DESIGN.md C19)",
			},
		},
	})
}
