package checks

import (
	"bytes"
	"encoding/json"
	"testing"

	"verifsim/kernel"
	"verifsim/schedsim"
)

func TestC19(t *testing.T) {
	kernel.Run(t, &kernel.Spec{
		Prop: "C19", Engine: "schedsim",
		// every third case drives event.TypeMux (the older dispatcher of the same package) instead of event.Feed
		Generate: func(rng *kernel.RNG, env *kernel.Env, k int) any {
			if k%3 == 2 {
				return schedsim.GenMuxPlan(rng, env, k)
			}
			return schedsim.GenFeedPlan(rng, env, k)
		},
		Decode: func(raw json.RawMessage) (any, error) {
			if bytes.Contains(raw, []byte(`"mux_actors"`)) {
				return schedsim.DecodeMuxPlan(raw)
			}
			return schedsim.DecodeFeedPlan(raw)
		},
		Execute: func(t *testing.T, p any, col *kernel.Collector) []kernel.Violation {
			if mp, ok := p.(*schedsim.MuxPlan); ok {
				return schedsim.ExecMux(t, mp, col)
			}
			return schedsim.ExecFeed(t, p, col)
		},
		Shrink: func(p any) []any {
			if mp, ok := p.(*schedsim.MuxPlan); ok {
				return schedsim.ShrinkMuxPlan(mp)
			}
			return schedsim.ShrinkFeedPlan(p)
		},
		Hash: func(p any) uint64 {
			if mp, ok := p.(*schedsim.MuxPlan); ok {
				return schedsim.HashMuxPlan(mp)
			}
			return schedsim.HashFeedPlan(p)
		},
		StallS: 30, ShrinkBudget: 400,
		Meta: map[string]any{
			"components": map[string]string{
				"event.Feed (Send/Subscribe/remove), feedSub, SubscriptionScope":                          "real",
				"event.TypeMux (Post/Subscribe/Unsubscribe/Stop), TypeMuxSubscription (every third case)": "real; interleaved at its blocking points (a Post blocked on a slow subscriber while others subscribe, unsubscribe, post or stop)",
				"goroutine scheduling": "decided by the simulator: actors park on gates before every call and at 4 yield points inside Send/remove; one release at a time, synctest.Wait as quiescence barrier",
				"subscribers":          "simulated: non-blocking polls issued only when released (slow subscriber = rarely released)",
			},
			"assumptions": []string{
				"interleavings are explored at blocking points and at the listed yield points, not at every memory access",
				"no yield sits between Feed.Send's TrySend sweep and reflect.Select (argued in DESIGN.md C19)",
			},
		},
	})
}
