package checks

import (
	"testing"

	"verifsim/kernel"
	"verifsim/schedsim"
)

func TestC13(t *testing.T) {
	kernel.Run(t, &kernel.Spec{
		Prop: "C13", Engine: "schedsim",
		Generate: schedsim.GenC13Plan, Decode: schedsim.DecodeC13Plan, Execute: schedsim.ExecC13,
		Shrink: schedsim.ShrinkC13Plan, Hash: schedsim.HashC13Plan,
		StallS: 30, ShrinkBudget: 200,
		Meta: map[string]any{
			"components": map[string]string{
				"aquahash engine: VerifyHeader, VerifyHeaders (worker pool), VerifyUncles, CalcDifficulty": "real (seal check faked: ModeFake)",
				"consensus.ChainReader":              "simulator-owned: synthetic parent/grandparent headers; in batch mode every worker parks in its lookup until the scheduler releases it",
				"clock":                              "synctest fake clock (header times are placed relative to it)",
				"header rules / difficulty schedule": "independent reference implementation with literal constants (refmodel/header.go)",
			},
			"assumptions": []string{
				"fork schedules are prefix-closed with strictly ascending heights (as the mainnet, testnet and test schedules are); the protocol description fixes no behaviour for coinciding fork heights",
				"the proof-of-work seal itself is C14's subject and is faked here",
			},
		},
	})
}
