package checks

import (
	"testing"

	"verifsim/chainsim"
	"verifsim/kernel"
)

func TestC03(t *testing.T) {
	kernel.Run(t, &kernel.Spec{
		Prop: "C03", Engine: "chainsim",
		Generate: chainsim.GenC03, Decode: chainsim.DecodePlan, Execute: chainsim.ExecChain("C03"),
		Shrink: chainsim.ShrinkPlan, Hash: chainsim.HashPlan,
		StallS: 60, ShrinkBudget: 300, Meta: chainMeta,
	})
}
