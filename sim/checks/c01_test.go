package checks

import (
	"bytes"
	"encoding/json"
	"testing"

	"verifsim/chainsim"
	"verifsim/kernel"
)

// C01 has two kinds of plan: import histories (chainsim.Plan) and miner
// histories (chainsim.MinePlan: the node's own block-building path).
func TestC01(t *testing.T) {
	imp := chainsim.ExecChain("C01")
	kernel.Run(t, &kernel.Spec{
		Prop: "C01", Engine: "chainsim",
		Generate: func(rng *kernel.RNG, env *kernel.Env, k int) any {
			if k%4 == 3 {
				return chainsim.GenMinePlan(rng, env, k)
			}
			return chainsim.GenC01(rng, env, k)
		},
		Decode: func(raw json.RawMessage) (any, error) {
			if bytes.Contains(raw, []byte(`"steps"`)) && !bytes.Contains(raw, []byte(`"ops"`)) {
				return chainsim.DecodeMinePlan(raw)
			}
			return chainsim.DecodePlan(raw)
		},
		Execute: func(t *testing.T, p any, col *kernel.Collector) []kernel.Violation {
			if mp, ok := p.(*chainsim.MinePlan); ok {
				return chainsim.ExecMine(t, mp, col)
			}
			return imp(t, p, col)
		},
		Shrink: func(p any) []any {
			if mp, ok := p.(*chainsim.MinePlan); ok {
				return chainsim.ShrinkMinePlan(mp)
			}
			return chainsim.ShrinkPlan(p)
		},
		Hash: func(p any) uint64 {
			if mp, ok := p.(*chainsim.MinePlan); ok {
				return chainsim.HashMinePlan(mp)
			}
			return chainsim.HashPlan(p)
		},
		StallS: 60, ShrinkBudget: 300, Meta: chainMeta,
	})
}
