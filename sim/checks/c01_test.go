package checks

import (
	"testing"

	"verifsim/chainsim"
	"verifsim/kernel"
)

func TestC01(t *testing.T) {
	kernel.Run(t, &kernel.Spec{
		Prop: "C01", Engine: "chainsim",
		Generate: chainsim.GenC01, Decode: chainsim.DecodePlan, Execute: chainsim.ExecChain("C01"),
		Shrink: chainsim.ShrinkPlan, Hash: chainsim.HashPlan,
		StallS: 60, Meta: chainMeta,
	})
}
