#!/usr/bin/env python3
"""usage: mutant_prompt.py <PROP> <scratch-worktree-dir>   -> prints the task text for a fresh sub-agent.

The sub-agent gets ONLY this text (the property as given in properties.jsonl) and its own scratch
git worktree of /repo - nothing from /verif. Typical use:

    d=/tmp/wt/c05x; git -C /repo worktree add --detach $d HEAD -f; mkdir -p $d/MUTANTS
    bin/mutant_prompt.py C05 $d > $d/MUTANTS/TASK.md
    (agent prompt: "Read the file $d/MUTANTS/TASK.md and carry out the task described there exactly.
     Work only inside $d. Do not read anything under /verif or /repo.")
    bin/confirm_mutant.sh $d m1 <pkgdir> <demo-run-regex>      # compiles, existing tests pass, demo fails with / passes without
    bin/try_mutant_scratch.sh $d/MUTANTS/m1.diff C05 35 5       # does the check catch it? (never touches /repo)
    bin/keep_mutant.py C05 $d m1 caught|missed "<note>" "<confirm line>"
    git -C /repo worktree remove --force $d
"""
import json, sys

pid, d = sys.argv[1], sys.argv[2]
prop = None
for line in open("/verif/properties.jsonl"):
    p = json.loads(line)
    if p["id"] == pid:
        prop = p
if prop is None:
    sys.exit("unknown property " + pid)
text = (f"{prop['id']}: {prop['title']}\n\nStatement: {prop['statement']}\n\nQuantified over: {prop['quantifier']['text']}\n\n"
        f"Why tests cannot settle it: {prop['why_tests_cant']}\n\nAnchored in files: {', '.join(prop['anchors']['files'])}\n")
print(f"""You are working in a scratch git worktree of the aquachain repository (a go-ethereum-derived blockchain node written in Go) at {d}. Work ONLY inside {d}. Do not read or write anything under /verif or /repo, and do not use the network (there is none). Shell setup for every command: `export GOFLAGS=-mod=mod GOPROXY=off` then use plain `go build ./...` / `go test -vet=off -count=1 ./core/ ...` (the default `go` auto-selects the right toolchain; do not set GOSUMDB or GOTOOLCHAIN).

Here is a semantic property of this code base that is supposed to hold:

{text}

YOUR TASK: act as a mutation author. Make a SMALL, REALISTIC change to the production source in your worktree - the kind of bug a developer could plausibly introduce or a refactoring could leave behind (an off-by-one, a dropped or reordered write, a missing unlock on an error path, a wrong comparison operator, a skipped cleanup, a stale cache entry, a wrong index, a condition that is slightly too weak or too strong...) - that BREAKS the property above while:
  1. the code still compiles (`go build ./...`), and
  2. the EXISTING tests of the packages you touched (and of ./core/ if you touched anything chain-related) still PASS - run them and confirm; and
  3. the breakage needs something specific to manifest: a particular interleaving, a crash or fault at a particular point, a multi-step sequence of operations, an unusual input or configuration, or two cooperating sites that each look fine alone. Do NOT produce a change that ordinary use or any trivial call would expose at once.

For each mutant also write a DEMONSTRATION: a new Go test file (or small program) that FAILS with your change and PASSES on the unchanged tree. Verify both directions yourself. NEVER use `git stash` (the stash is shared with other worktrees of this repository): save your production change with `git diff > MUTANTS/mN.diff`, undo it with `git apply -R MUTANTS/mN.diff`, run the demo on the clean tree, and re-apply with `git apply MUTANTS/mN.diff` if needed.

Produce up to 3 different, independent mutants (each must apply on its own to the clean tree). Deliver, inside {d}/MUTANTS/ :
  - m1.diff, m2.diff, m3.diff : `git diff` of the production change only (NOT including the demo file), each applying cleanly to the clean worktree with `git apply`;
  - m1_demo_test.go (etc.) : the demonstration, plus in m1.txt : which package directory the demo file has to be copied into, the exact command to run it, what it prints with and without the change, what the mutant breaks and what it needs in order to manifest, and which existing test commands you ran to confirm they still pass.
When finished, leave the worktree CLEAN (git checkout -- . ; remove demo files from package directories; only the MUTANTS/ directory remains as untracked). The tree contains a package common/verifhook and a few calls of verifhook.Point(...) / files named verif_export.go behind the build tag `verif`: they are inert test seams; do not build your mutant on them and do not modify them. Do not commit. Finish with a brief summary of the mutants you produced.
Prefer mechanisms that are NOT the single most obvious site for this property, and spread your three mutants over different files or mechanisms (for example error paths, restart/reopen paths, rarely taken branches, caches, batching boundaries, configuration corners, concurrency between two goroutines).""")
