#!/bin/bash
# usage: try_mutant.sh <diff> <PROP> [budget_s] : apply a mutant to /repo, run the quick check, revert.
set -u
DIFF=$1; PROP=$2; BUDGET=${3:-}
cd /repo || exit 2
if [ -n "$(git status --porcelain)" ]; then echo "REPO DIRTY, refusing"; exit 2; fi
if ! git apply --check "$DIFF" 2>/dev/null; then echo "APPLY-FAILED $DIFF"; exit 3; fi
git apply "$DIFF"
cd /verif
if [ -n "$BUDGET" ]; then OUT=$(bin/check $PROP --budget $BUDGET 2>&1); else OUT=$(bin/check $PROP 2>&1); fi
RC=$?
git -C /repo checkout -- . 
echo "$OUT" | grep -E "^(VIOLATION|OK|INFRA|KNOWN|BUILD|STALL)" | cut -c1-260 | head -6
echo "RESULT rc=$RC mutant=$DIFF prop=$PROP"
# restore evidence to the clean-tree state is the caller's business
exit $RC
