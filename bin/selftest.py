"""Determinism self-test:  bin/check selftest determinism [--props C04,C19] [--runs 6] [--procs 12]

For each property the same worker (same VERIF_SEED, worker 0/1) is executed in
--procs separate OS processes, spread over -test.cpu 1, 4 and 16, each
performing the first --runs runs of the search; every process writes one
digest line per run (plan hash, hash of every counter the engine moved,
violation classes).  All processes must write identical digest files.
Exit 0: identical everywhere.  Exit 2: a divergence (reported per property);
this is a property of the machinery, never a VIOLATION.
"""
import json, os, shutil, subprocess, sys, tempfile, time, concurrent.futures as cf

def main(argv):
    import importlib.machinery, importlib.util
    loader = importlib.machinery.SourceFileLoader("check", os.path.join(os.path.dirname(os.path.abspath(__file__)), "check"))
    spec = importlib.util.spec_from_loader("check", loader)
    chk = importlib.util.module_from_spec(spec)
    loader.exec_module(chk)
    props, runs, procs, seed = sorted(chk.PROPS), 6, 12, 1
    i = 1
    while i < len(argv):
        if argv[i] == "--props": props = argv[i + 1].split(","); i += 2
        elif argv[i] == "--runs": runs = int(argv[i + 1]); i += 2
        elif argv[i] == "--procs": procs = int(argv[i + 1]); i += 2
        elif argv[i] == "--seed": seed = int(argv[i + 1]); i += 2
        else: i += 1
    scratch = tempfile.mkdtemp(prefix="verifsim-")
    report, bad = {}, False
    try:
        binary = chk.build(scratch)
        for pid in props:
            cfg = chk.PROPS[pid]
            def one(j):
                cpu = [1, 4, 16][j % 3]
                out = os.path.join(scratch, f"{pid}.{j}")
                os.makedirs(out, exist_ok=True)
                dg = os.path.join(out, "digest.txt")
                e = chk.goenv()
                e.update(VERIF_SEED=str(seed), VERIF_TIER="quick", VERIF_WORKER="0/1", VERIF_OUT=out, VERIF_BUDGET_S="100000",
                         VERIF_MAX_RUNS=str(runs), VERIF_DIR=chk.VERIF, VERIF_DIGEST=dg)
                if cfg.get("env"):
                    e.update(cfg["env"])
                r = subprocess.run([binary, "-test.run", f"^{cfg['test']}$", "-test.cpu", str(cpu), "-test.timeout", "1h"], env=e, cwd=chk.SIM,
                                   stdout=subprocess.PIPE, stderr=subprocess.STDOUT, text=True)
                return cpu, r.returncode, open(dg).read() if os.path.exists(dg) else "", dg + ".full"
            t0 = time.time()
            with cf.ThreadPoolExecutor(max_workers=min(procs, 12)) as ex:
                res = list(ex.map(one, range(procs)))
            digests = {}
            fulls = {}
            for cpu, rc, d, full in res:
                digests.setdefault(d, []).append((cpu, rc))
                fulls.setdefault(d, full)
            ok = len(digests) == 1 and "" not in digests
            report[pid] = {"processes": procs, "runs_each": runs, "identical": ok, "variants": len(digests), "wall_s": round(time.time() - t0, 1)}
            print(f"{'DETERMINISTIC' if ok else 'DIVERGES'} property={pid} processes={procs} runs_each={runs} digest_variants={len(digests)}")
            if not ok:
                bad = True
                ds = list(digests)
                a = ds[0].splitlines()
                for other in ds[1:]:
                    b = other.splitlines()
                    for k in range(max(len(a), len(b))):
                        la = a[k] if k < len(a) else "<missing>"
                        lb = b[k] if k < len(b) else "<missing>"
                        if la != lb:
                            print(f"  first difference at run {k}:\n    {la}\n    {lb}   (cpu/rc {digests[other][:3]})")
                            try:
                                fa, fb = open(fulls[ds[0]]).read().splitlines(), open(fulls[other]).read().splitlines()
                                shown = 0
                                for x, y in zip(fa, fb):
                                    if x != y and shown < 6:
                                        print(f"      counter: {x.strip()}  vs  {y.strip()}"); shown += 1
                            except OSError:
                                pass
                            break
        os.makedirs(os.path.join(chk.VERIF, "evidence"), exist_ok=True)
        path = os.path.join(chk.VERIF, "evidence", "determinism.json")
        merged = {}
        if os.path.exists(path):
            try:
                merged = json.load(open(path)).get("results", {})
            except ValueError:
                merged = {}
        merged.update(report)
        json.dump({"seed": seed, "results": merged}, open(path, "w"), indent=1)
    finally:
        shutil.rmtree(scratch, ignore_errors=True)
    sys.exit(2 if bad else 0)
