#!/usr/bin/env python3
"""keep_mutant.py <PROP> <worktree> <mN> <status: caught|missed|equivalent> <caught_by/notes> <confirm line>"""
import sys, os, shutil, json, re
prop, wt, m, status, notes, confirm = sys.argv[1:7]
sid = f"{prop}-{os.path.basename(wt)}-{m}"
d = f"/verif/seeded/{sid}"
os.makedirs(d, exist_ok=True)
shutil.copy(f"{wt}/MUTANTS/{m}.diff", f"{d}/patch.diff")
for f in os.listdir(f"{wt}/MUTANTS"):
    if f.startswith(m + "_demo"):
        shutil.copy(f"{wt}/MUTANTS/{f}", f"{d}/{f}")
txt = open(f"{wt}/MUTANTS/{m}.txt").read() if os.path.exists(f"{wt}/MUTANTS/{m}.txt") else ""
open(f"{d}/author_notes.txt", "w").write(txt)
meta = {"id": sid, "property": prop, "status_against_checks": status, "notes": notes,
        "needs_to_manifest": "see author_notes.txt (written by the independent sub-agent that authored the change)",
        "confirmed_in_scratch_worktree": confirm,
        "what_i_ran": f"bin/confirm_mutant.sh (build, existing package tests with the change, demo with and without the change); bin/try_mutant.sh patch.diff {prop} (git -C /repo apply, quick check, git checkout)"}
json.dump(meta, open(f"{d}/meta.json", "w"), indent=1)
print("kept", d)
