#!/bin/bash
# usage: try_mutant_scratch.sh <diff|-> <PROP> [budget_s] [workers]
# Runs a property's check against a seeded change WITHOUT touching /repo: a scratch git
# worktree of /repo at HEAD gets the change applied, a scratch copy of /verif/sim is pointed
# at it (go.mod replace), the test binary is built there and the workers are run directly.
# "-" as diff = unchanged tree (sanity run).  Everything scratch is removed afterwards.
set -u
DIFF=$1; PROP=$2; BUDGET=${3:-30}; W=${4:-6}
export GOFLAGS=-mod=mod GOPROXY=off GOSUMDB=off GOTOOLCHAIN=local
S=$(mktemp -d /tmp/mutscratch-XXXX)
trap 'git -C /repo worktree remove --force $S/repo >/dev/null 2>&1; rm -rf $S' EXIT
git -C /repo worktree add --detach $S/repo HEAD -f >/dev/null 2>&1 || { echo "WORKTREE-FAILED"; exit 2; }
if [ "$DIFF" != "-" ]; then (cd $S/repo && git apply "$DIFF") || { echo "APPLY-FAILED $DIFF"; exit 3; }; fi
cp -r /verif/sim $S/sim && cp /repo/go.sum $S/sim/go.sum && sed -i "s#=> /repo#=> $S/repo#" $S/sim/go.mod
(cd $S/sim && go1.26.8 test -c -tags verif -o $S/t.test ./checks 2>&1 | grep -v "^warning\|duktape\|^#" | head -5)
[ -x $S/t.test ] || { echo "BUILD-FAILED"; exit 2; }
mkdir -p $S/out $S/verif && cp /verif/known_findings.json $S/verif/
rc=0
for w in $(seq 0 $((W-1))); do
  (VERIF_SEED=${VERIF_SEED:-1} VERIF_WORKER=$w/$W VERIF_BUDGET_S=$BUDGET VERIF_OUT=$S/out VERIF_DIR=$S/verif timeout $((BUDGET*4+300)) $S/t.test -test.run "^Test${PROP}\$" -test.cpu 1 > $S/out/w$w.log 2>&1; echo $? > $S/out/w$w.rc) &
done
wait
for w in $(seq 0 $((W-1))); do
  grep -h "VIOLATION-DETAIL\|^STALL\|^panic:\|HARNESS-PANIC" $S/out/w$w.log | cut -c1-300 | head -1
  r=$(cat $S/out/w$w.rc); [ "$r" != "0" ] && rc=1
done
for f in $S/out/*.stall.txt; do [ -f "$f" ] && { echo "--- stall dump (goroutines in netsim/schedsim/chainsim frames):"; grep -B2 -A12 "verifsim/" "$f" | grep -v "^--$" | head -${STALL_LINES:-60}; break; }; done
echo "RESULT rc=$rc mutant=$DIFF prop=$PROP (scratch build, $W workers x ${BUDGET}s)"
exit $rc
