#!/bin/bash
# usage: confirm_mutant.sh <worktree> <mN> <pkgdir> <demo-run-regex> [extra tags]
# Confirms in the scratch worktree: mutant compiles, existing package tests pass, demo fails with / passes without.
WT=$1; M=$2; PKG=$3; RUN=$4; TAGS=${5:-}
export GOFLAGS=-mod=mod GOPROXY=off
cd $WT || exit 2
git checkout -q -- . ; rm -f $PKG/*_demo_test.go $PKG/m?_demo*_test.go
git apply MUTANTS/$M.diff || { echo "CONFIRM $M apply-failed"; exit 3; }
go build ./... 2>&1 | grep -v "duk_\|sprintf\|comp\.\|\^\|~~\|In function\|note:\|^#" | head -5
EX=$(go test -vet=off -count=1 ./$PKG/ 2>&1 | tail -1)
cp MUTANTS/${M}_demo_test.go $PKG/
W=$(go test -vet=off -count=1 $TAGS -run "$RUN" ./$PKG/ 2>&1 | tail -1)
git apply -R MUTANTS/$M.diff
WO=$(go test -vet=off -count=1 $TAGS -run "$RUN" ./$PKG/ 2>&1 | tail -1)
rm -f $PKG/${M}_demo_test.go
git checkout -q -- .
echo "CONFIRM $M existing-with-mutant: [$EX] demo-with: [$W] demo-without: [$WO]"
