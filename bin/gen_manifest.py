#!/usr/bin/env python3
"""Writes /verif/MANIFEST.json from the table below (kept in one place so the manifest stays valid)."""
import json, os, subprocess
V = os.path.dirname(os.path.dirname(os.path.abspath(__file__)))

NA = {
 "C07": "Pure function of (program, input, gas, state, block context): no schedule, clock, I/O fault, crash or multi-party history for a simulator to control; deciding 'for all programs' needs input-space techniques (DESIGN.md §3 C07).",
 "C08": "Opcode results/gas are pure functions of operands and fork epoch; nothing for deterministic simulation to schedule or fault (DESIGN.md §3 C08).",
 "C11": "Pure codec: canonicity over all byte strings is an input-space statement; the only fault-bearing facet (short reads on io.Reader) is exercised inside C17 and does not decide C11 (DESIGN.md §3 C11).",
 "C12": "Sender recovery is a pure function of (fields, signature, signer, chain id); no scheduling, time or fault dimension (DESIGN.md §3 C12).",
}
PENDING = "not claimed yet: check under construction (planned in DESIGN.md §3); it moves to 'checks' when its engine lands"

CHECKS = {
 "C04": dict(engine="chainsim+simdisk", category="fault_enumeration", design_ref="§3 C04, §2.3",
   technique="deterministic simulation: simulated disk with crash at every write boundary + injected write failures, reopen oracle with independent state traversal",
   text="Seeded import histories (forks, reorganisations to longer and shorter-heavier branches, duplicates, restarts, Stop; archive and pruning profiles, scaled batch flushing) run once on a recording simulated disk; every prefix of the write log (thorough: all; quick: all inside reorg/restart/Stop windows + 25% sample) is reopened with the real NewBlockChain and judged: no error/panic, head = LastBlock's nearest ancestor with complete state (independent MPT traversal), state equal to the oracle node's, number index = ancestry, root-present-implies-complete, re-feeding converges. Separately each write attempt is made to fail once (thorough: all; quick: every 7th): no deadlock (watchdog + lock-leak recogniser), survivors and post-failure crash images satisfy the same oracle. Sampling of histories, complete enumeration of crash points per history.",
   note="Trusted: go1.26.8 + testing/synctest, the harness, the reference MPT/RLP decoder, the crash model (LevelDB batches atomic, acknowledged writes survive process death; power-loss semantics below that are out of scope), log.Crit = process death via the guarded hook."),

 "C01": dict(engine="chainsim", category="exploration", design_ref="§3 C01",
   technique="deterministic simulation: multi-node cross-history differential against an oracle node + Byzantine block mutation, seeded search over delivery orders, restarts and crashes",
   text="Seeded block trees (built by the repo's own block builder) are delivered to 2-4 real nodes with different cache profiles in different parent-closed orders and batchings, with duplicates, clean restarts and crash-restarts at rest; for every block a node imports, receipts (status/root, cumulative gas, bloom, logs), gas used and the complete post-state (independent MPT traversal through the node's trie database) must equal the oracle node's. Corrupted copies (14 single-field corruptions of header commitments and body) must be rejected with head, header head, canonical index and head state unchanged. Sampling, not enumeration.",
   note="Trusted: synctest, harness, reference MPT traversal; the oracle node is the same real code on a fault-free archive database (differential, not a model); the miner's block-building path is not yet part of this check (GenerateChain is)."),
 "C02": dict(engine="chainsim", category="exploration", design_ref="§3 C02",
   technique="deterministic simulation: seeded delivery orders of block trees to real nodes, fork-choice reference model (sum of header difficulties) checked after every import",
   text="For seeded trees that deliberately contain shorter-but-heavier and longer-but-lighter branches, every parent-closed delivery order/batching sampled must leave the head at a block of maximal total difficulty among the blocks handed over (ties either way), with stored TD = parent TD + difficulty = model TD, head TD non-decreasing over imports, unchanged head across clean restarts, and equal head TD on all nodes once everything is delivered.",
   note="Trusted: synctest, harness, the model (TD from header difficulties in the simulator's tree). 'Heaviest among accepted blocks' coincides with the statement for parent-closed valid deliveries; the literal form (block and state present) is reported in the violation text."),
 "C03": dict(engine="chainsim", category="exploration", design_ref="§3 C03",
   technique="deterministic simulation: seeded InsertChain/InsertHeaderChain/SetHead/restart histories, canonical-index and tx-lookup reference model checked at rest after every operation",
   text="After every operation on full, header-only and headers-then-blocks nodes: every height up to the head maps to the head's ancestor in the simulator's tree, nothing maps above the head (64 heights probed), canonical blocks up to the block head have header/body/receipts/TD, and every transaction ever mined resolves iff it is in a canonical block, to that block and index (including transactions mined on two branches). Reorganisations to shorter branches and rewinds are generated on purpose.",
   note="Trusted: synctest, harness, ancestry model. Header-first imports are generated as properly separated phases on one branch (what that import path supports). One known finding is filtered by its specific signature (known_findings.json)."),

 "C19": dict(engine="schedsim", category="exploration", design_ref="§3 C19, §2.2",
   technique="deterministic simulation: seeded gate scheduler over the real Feed/SubscriptionScope goroutines (one release at a time, yield points inside Send/remove), exactly-once / count / common-order / no-delivery-after-unsubscribe checks over the recorded history",
   text="Seeded interleavings of Send / Subscribe / Unsubscribe / scope Close with slow and fast, buffered and unbuffered subscribers, including unsubscription while a send is blocked on that very subscriber. History oracles use definite (step-ordered) happens-before only: every value is delivered exactly once to each subscription established before the send began and not unsubscribed before it returned, never to dead subscriptions, never after Unsubscribe/Close returned (deliveries into buffers are observed as length changes at rest), Send's return value equals the observed deliveries, all subscribers see one common order, and every actor terminates once receivers drain (else deadlock).",
   note="Trusted: synctest quiescence, harness. Granularity: blocking points and the listed yield points, not every memory access (data races proper are outside this check)."),

 "C13": dict(engine="schedsim", category="exploration", design_ref="§3 C13",
   technique="deterministic simulation: simulator-owned ChainReader gates every batch-verification worker (seeded completion order, worker count, abort point), fake clock for the future-block rule, Byzantine header mutation judged by an independent reference implementation of the rules",
   text="(a) Schedule: the real VerifyHeaders worker pool runs with each worker parked in its chain lookup; the simulator decides completion order, GOMAXPROCS (1/2/4/16), when results are read and when abort closes; for every schedule the results must match one-by-one VerifyHeader up to and including the first failure and no goroutine may remain. (b) Clock: header times are placed at now+13..+31 s of the fake clock. (c) Rules: VerifyHeader / VerifyUncles verdicts on boundary-lattice candidates around every fork height of the built-in and random schedules must equal a stand-alone reference (literal constants: divisors, minima, duration limits, reset blocks, 32-byte extra, 5000 / parent/1024 / 2^63-1 gas bounds).",
   note="Trusted: synctest, harness, the reference rules (written from the statement; constants are literals, not imports). Fork schedules are prefix-closed and strictly ascending (the protocol fixes nothing for coinciding heights). Uncle-set rules beyond the individual uncle header and the InsertChain-level future-block queue are not yet covered."),

 "C15": dict(engine="chainsim+schedsim", category="exploration", design_ref="§3 C15",
   technique="deterministic simulation: seeded tx-pool operation histories on a real node with head changes and reorganisations, fake clock, simulator-controlled timing of the pool's reset (yield point, adopted loop goroutine); invariants recomputed independently at every rest point",
   text="At every rest point (pool caught up with the chain head) the pending set is recomputed from Pending()/Content() and the head state: per sender a gap-free nonce run from the chain nonce, each transaction affordable and within the block gas limit, one transaction per (sender, nonce) across pending and queue, virtual nonce = chain nonce + pending count; a same-nonce replacement is accepted only with the configured bump; per-account and pool-wide limits hold for senders never used as local, judged where the pool runs its limiter (for the submitting accounts after an accepted submission, for everyone after a head change); after a reorganisation every dropped transaction that is still valid is pooled again (judged under roomy limits).",
   note="Trusted: synctest, harness. Every public pool method holds pool.mu for its whole body, so caller interleavings are exactly the listed orders; the one asynchronous actor (the loop's head-event handler) is scheduled explicitly. The miner worker is not part of this check. One known finding is filtered by its specific signature."),

 "C10": dict(engine="storesim", category="exploration", design_ref="§3 C10",
   technique="deterministic simulation: seeded model-based operation histories over the real trie on a simulated disk (commit / flush / reopen / crash before flush / cache eviction), independent reference Merkle-Patricia root as oracle, proofs altered and truncated in flight",
   text="Every Hash/Commit root must equal the reference root of the model content (own hex-prefix, RLP, Keccak), gets and iteration must return exactly the live content, a trie reopened from a committed or flushed root must reproduce it, a root that was never flushed must fail to open with a missing-node error (never wrong data), and a proof must verify to the model value or to absence while no single-byte alteration or omission of a proof node verifies to a different value. DeriveSha lists are compared with the same reference.",
   note="Trusted: harness, reference MPT/RLP/Keccak (x/crypto). Stored node blobs are not corrupted on purpose (the trie trusts its database; the statement makes no claim under disk corruption). Proofs of an empty trie (no nodes) are skipped."),
 "C09": dict(engine="storesim", category="exploration", design_ref="§3 C09",
   technique="deterministic simulation: seeded model-based StateDB histories with snapshots/reverts, commit, cold reopen from the simulated disk, crash before flush and Copy; map model with deep-copy snapshot stack and independent reference state root; cross-history root comparison",
   text="After every operation every getter (existence, emptiness, balance, nonce, code, code hash/size, storage slots, self-destruct flag, refund, log count) must equal the model, so a revert that restores anything inexactly shows at the very next step; every root (IntermediateRoot, Commit) must equal the reference Merkle-Patricia root of the content with the account RLP encoded independently; a state reopened cold from the disk or taken by Copy must read identically and stay independent; an unflushed root must not open after a crash; a second, permuted and revert-padded history reaching the same content must give the same root.",
   note="Trusted: harness, reference model and root. One finalise flag per history (mixing empty-account deletion on/off inside one history makes the outcome depend on the protocol's touched set, which is not content)."),

 "C05": dict(engine="chainsim", category="exploration", design_ref="§3 C05",
   technique="deterministic simulation: conservation monitor (total supply from an independent state traversal) evaluated after every transaction and block of every seeded history on every node, against an independently written reward schedule",
   text="Seeded universes with value transfers, contract calls that forward, revert, run out of gas, create, fail to create and self-destruct (to an account, to itself, to a fresh address), uncles, HF4-listed genesis allocations and every fork mode. The supply never rises while transactions execute, falls only in a self-destruct, grows per block by exactly 1 AQUA + uncle rewards (+1/32 per uncle), HF4 only lowers it, finalisation around height 42,000,000 pays nothing; every node in every history (restarts, crash-restarts, reorganisations) holds the oracle's supply at every block it imports.",
   note="Trusted: harness, reference traversal, the reward function written from the statement. The quantifier over programs is sampled by hand-assembled templates; the 42,000,000 cut-off is exercised through Engine.Finalize on synthetic headers because a chain of that length cannot be built."),
 "C06": dict(engine="chainsim", category="exploration", design_ref="§3 C06",
   technique="deterministic simulation: per-transaction equations on the oracle replay, exactly-once account ledger folded over the canonical chain of every node after every operation of seeded histories (reorganisations, restarts, crashes), Byzantine blocks with one invalid transaction",
   text="Per transaction: nonce +1, sender -gasUsed x price - value (iff success), coinbase +gasUsed x price, gas between the intrinsic floor and the limit, gas of the storage template equal to a reference evaluator including the half-of-consumed refund cap, failed executions leave no storage, log or code, receipts in the fork's format, cumulative gas = sum = header <= limit. Per history: at every head, every account's nonce and balance equal an independent ledger (template effects, fees, block and uncle rewards) folded over the canonical chain, so a transaction applied twice, not rolled back or charged on an abandoned branch shows. Blocks with a wrong-nonce, unaffordable, under-intrinsic or over-remainder transaction are rejected leaving the node unchanged.",
   note="Trusted: harness, the ledger and gas reference. 'intrinsic <= gasUsed' is judged before the refund (the reported figure may legally drop to half the consumed gas); fields/programs are sampled by generators with boundary cases generated on purpose."),

 "C16": dict(engine="chainsim+schedsim", category="exploration", design_ref="§3 C16",
   technique="deterministic simulation: real chain indexer, bloom indexer, matcher and filter over a simulated node on the fake clock, gate-scheduled bloom retrieval servers (seeded order/delay of answers, cancellation), brute-force receipt scan and independent bloom function as oracles",
   text="(a) For every receipt and header of every generated universe, every address and topic of every log tests positive in the receipt and block bloom under an independent 3x11-bit bloom function. (b) Filter.Logs for generated criteria and ranges equals a brute-force scan of the oracle node's canonical receipts in chain order - under every sampled retrieval schedule, while the index is behind the head, across the indexed/unindexed boundary and after reorganisations that invalidate sections; cancelled queries may only return a prefix of the exact answer; a query that never returns once every server was released is a violation.",
   note="Trusted: synctest, harness, brute-force matcher. The retrieval service is a stub mirroring aqua.startBloomHandlers; the indexer's confirmation depth is lowered through a verif-only constructor so that short chains reach indexed sections."),

 "C17": dict(engine="netsim", category="exploration", design_ref="§3 C17",
   technique="deterministic simulation: real discovery tables, RLPx servers and sub-protocol handler on in-memory transports under the fake clock with injected loss-free but hostile traffic (crafted/signed datagrams, byte flips/drops/inserts/closes/stalls at chosen stream offsets, damaged protocol messages, failing payload readers); crash-of-process, wedge, prefix-integrity and size-limit oracles",
   text="(a) Two complete p2p.Servers perform the real encryption and protocol handshakes over a link that fragments the stream and damages one byte position: what the receiver's protocol is handed must be a byte-identical prefix of what the sender wrote, fault-free sessions deliver everything, and after every timeout no half-open session remains. (b) Real discovery tables receive attacker datagrams of 11 kinds including correctly hashed and signed ones with short, malformed or oversized bodies: no crash (a panic on a node goroutine kills the worker and the driver reports the plan as a process-crash violation) and a fresh valid ping is still answered within the reply timeout. (c) The real aqua handler gets a (possibly broken) status handshake and damaged messages of every code: no crash, no payload byte of a message announcing more than the 10 MiB limit is read, writes are consumed or the peer is dropped within 30 simulated seconds, and the handler returns within 60 s after the peer closes.",
   note="Trusted: synctest, harness, own packet/RLP crafting. Interleaving inside the servers between quiescence points is the runtime's (one P per worker); the oracles hold under any interleaving. Attribution of mutated datagrams to keys and 16 MiB frames are only in the thorough tier's reach; full-stack multi-node convergence under attack is not implemented."),
 "C18": dict(engine="rpcsim", category="exploration", design_ref="§3 C18",
   technique="whole-node simulation per configuration: the real node (node.Node + aqua service, all four RPC servers, on-disk keystore) is started in a child process under each assignment of the opt-in variables and simulated clients call every method of every API object on every transport in seeded order; signatures are observed at the keystore entry points through a guarded hook; configuration grid enumerated completely, seeded mixtures afterwards",
   text="One case = one deployment in its own child process (the opt-in variables are read once at start-up): keystore with an unlocked and a locked account whose keys the harness also holds, one pending transaction per account in the pool, in-proc + IPC + HTTP + WS endpoints (module whitelists naming every namespace, or default, or WSExposeAll; optionally stopped and restarted through admin_stopRPC/startRPC/stopWS/startWS first). Clients first issue the well-known signing calls in 4 account/passphrase roles on each transport, then sweep every exported method of every API object the node reports (by reflection, so renamed or newly exposed methods are called too) with arguments synthesised from the Go signatures that name the keystore accounts, passphrases and the pending transactions. Oracle: a signature observed during a call on transport T is a violation unless T's variable or UNSAFE_RPC_SIGNING is set to a truthy value; a signature outside any call is a violation; on an opted-in transport personal_sign / aqua_sign / aqua_signTransaction / personal_signTransaction must actually sign. The first 64 cases enumerate all 32 set/unset assignments (and again with explicit negative spellings and restarts).",
   note="No fault or schedule dimension: the property quantifies over configurations and inputs, calls are sequential on real loopback sockets outside a synctest bubble (the only nondeterminism, port choice, is retried). Not deployed: the clique development chain, where block sealing signs by design once mining is on. admin_shutdown is not called. Trusted: harness, hook placement (after key lookup/decryption, before the ECDSA operation)."),
 "C20": dict(engine="storesim", category="fault_enumeration", design_ref="§3 C20",
   technique="stored-byte fault enumeration over simulated key files: per seeded (key, passphrase, form) every single-byte substitution, deletion and truncation of the stored file and every passphrase at edit distance one is applied and the real DecryptKey / KeyStore (Unlock, Export, Import, Update, sign-and-recover) is run on the result; crypto/rand seeded per run; independent encoder for the read-only forms",
   text="Files in six forms (the repository's EncryptKey; scrypt, pbkdf2 and version-1/AES-CBC files from an independent encoder written from the format description; the plaintext store for the 32-byte padding round trip), keys with up to 20 leading zero bytes, passphrases empty / long / non-ASCII / with control characters. For each file: round trip (identical key and address; after Unlock a signature recovers to the address; Export -> Import into a second store -> Update keeps the key and retires the old passphrase); every near-miss passphrase must fail; every byte position of the file (member names and structure included) is substituted by up to 12 characters, deleted, and the file truncated there: the outcome must be an error or the original key - a different key, a different account address, a nil key without error or a panic is a violation. KeyStore-level runs rewrite the stored file under the manager and alter exported files before Import. Passphrases differing only in trailing NUL bytes are a recorded finding of the format (HMAC key padding).",
   note="Enumeration per file is complete at stride 1 (small cost parameters) and strided for the standard light parameters and the KeyStore-level runs; keys and passphrases are sampled. Sequential, real temporary directory, outside a bubble (no timing clause in the statement). Tampering of the unencrypted plaintext store is out of the statement's scope and not judged. Trusted: harness, independent encoder (validated by the round trip through the real reader), x/crypto primitives."),
}

def main():
    src = subprocess.run(["git", "-C", "/repo", "log", "--format=%h %s"], capture_output=True, text=True).stdout.splitlines()
    hooks = [l.split()[0] for l in src if "verif hooks" in l]
    m = {
     "version": 1,
     "setup_cmd": "bin/check build",
     "hooks": {"guard": "verif",
               "enable": "GOFLAGS=-mod=mod GOPROXY=off GOSUMDB=off GOTOOLCHAIN=local go1.26.8 test -c -tags verif ./checks (module /verif/sim, replace gitlab.com/aquachain/aquachain => /repo)",
               "baseline_off_cmd": "cd /repo && go build ./... && go test -vet=off -count=1 -timeout 25m ./...",
               "source_commits": hooks, "add_only": True},
     "engines": [
        {"name": "kernel", "path": "sim/kernel", "serves_properties": sorted(CHECKS), "kind_free_text": "seeded PRNG, plan/execute/shrink/replay loop, evidence, real-time watchdog with deadlock recogniser"},
        {"name": "simdisk", "path": "sim/simdisk", "serves_properties": ["C04"], "kind_free_text": "simulated disk: write log, crash images (prefixes), injected write failures, ValueSize scaling"},
        {"name": "chainsim", "path": "sim/chainsim", "serves_properties": [p for p in sorted(CHECKS) if p in ("C01","C02","C03","C04","C05","C06","C13","C15","C16")], "kind_free_text": "real core.BlockChain nodes on simulated disks in a synctest bubble; universe built by the repo's block builder; stub gossip"},
        {"name": "schedsim", "path": "sim/schedsim", "serves_properties": [p for p in sorted(CHECKS) if p in ("C13","C14","C15","C16","C19")], "kind_free_text": "gate scheduler: real goroutines parked on channels, one released at a time from the plan, synctest.Wait as quiescence barrier"},
        {"name": "storesim", "path": "sim/storesim", "serves_properties": [p for p in sorted(CHECKS) if p in ("C09","C10","C20")], "kind_free_text": "model-based operation histories over trie / StateDB / key files on the simulated disk"},
        {"name": "netsim", "path": "sim/netsim", "serves_properties": [p for p in sorted(CHECKS) if p in ("C17",)], "kind_free_text": "in-memory datagram network, buffered stream connections with a fault-injecting link, attacker packet crafting; real discovery, RLPx and aqua handler"},
        {"name": "rpcsim", "path": "sim/rpcsim", "serves_properties": [p for p in sorted(CHECKS) if p in ("C18",)], "kind_free_text": "complete node with four RPC transports in a child process per opt-in configuration; reflective method sweep; keystore signing observer"},
        {"name": "refmodel", "path": "sim/refmodel", "serves_properties": sorted(CHECKS), "kind_free_text": "independent reference models (RLP, Merkle-Patricia root and traversal, ...)"},
     ],
     "checks": [],
     "not_applicable": [],
     "notes": "Technique family: deterministic simulation with fault injection (DESIGN.md). Known/fixed findings: known_findings.json; replays of fixed findings: findings/.",
    }
    for pid in sorted(CHECKS):
        c = CHECKS[pid]
        m["checks"].append({
            "property_id": pid,
            "quick_cmd": f"bin/check {pid} --tier quick",
            "thorough_cmd": f"bin/check {pid} --tier thorough",
            "evidence_file": f"/verif/evidence/{pid}.json",
            "replay_cmd_template": "bin/check replay {path}",
            "engine": c["engine"],
            "level_claimed": {"category": c["category"], "text": c["text"], "design_ref": c["design_ref"]},
            "level_note": c["note"],
            "technique": c["technique"],
        })
    allp = [json.loads(l)["id"] for l in open(os.path.join(V, "properties.jsonl"))]
    for pid in allp:
        if pid in CHECKS:
            continue
        m["not_applicable"].append({"property_id": pid, "reason": NA.get(pid, PENDING)})
    json.dump(m, open(os.path.join(V, "MANIFEST.json"), "w"), indent=1)
    print("MANIFEST.json written:", len(m["checks"]), "checks")

if __name__ == "__main__":
    main()
